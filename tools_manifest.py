#!/usr/bin/env python3
"""Regenerates MANIFEST.json from checks/*.py metadata (CLAIMS below) — keeps it valid at all times."""
import json
import pathlib

HERE = pathlib.Path(__file__).resolve().parent
props = [json.loads(l) for l in (HERE / "properties.jsonl").read_text().splitlines() if l.strip()]

# property -> (level text, level note, technique, design ref); absent => not_applicable with reason
CLAIMS = json.loads((HERE / "claims.json").read_text())

checks, na = [], []
for p in props:
    pid = p["id"]
    c = CLAIMS.get(pid)
    if c and c.get("claimed"):
        checks.append({
            "property_id": pid,
            "quick_cmd": f"./check {pid} --tier quick",
            "thorough_cmd": f"./check {pid} --tier thorough",
            "evidence_file": f"/verif/evidence/{pid}.json",
            "replay_cmd_template": f"./check {pid} --replay {{path}}",
            "engine": "symx",
            "level_claimed": {"category": "model_checking", "text": c["text"], "design_ref": c.get("design_ref", f"DESIGN.md §3 {pid}")},
            "level_note": c["note"],
            "technique": c.get("technique", "bounded symbolic execution of the real Python source over a z3-backed NumPy model; each path obligation decided by z3 (unsat = holds for all values in the bound), counter-models replayed on the real code"),
        })
    else:
        na.append({"property_id": pid, "reason": (c or {}).get("reason", "check not built yet in this round (solver-based harness pending)")})

manifest = {
    "version": 1,
    "setup_cmd": "./setup.sh",
    "hooks": {"guard": "SCORE_ANALYSIS_VERIF", "enable": "no hooks are compiled into /repo: checks re-read /repo/score_analysis/*.py on every run and execute it over the symx models (imports rewritten in memory only)",
              "baseline_off_cmd": "cd /repo && /venv/bin/python -m pytest -q -p no:cacheprovider", "source_commits": [], "add_only": True},
    "engines": [{"name": "symx", "path": "/verif/symx", "serves_properties": [c["property_id"] for c in checks],
                 "kind_free_text": "purpose-built symbolic executor: real repository source exec'd with numpy/scipy/pandas/math imports rewritten to z3-backed models; path forking by re-execution; z3 4.x/5.x decides PC∧¬obligation per path"}],
    "checks": checks,
    "not_applicable": na,
    "notes": "Exit codes of ./check: 0 held on everything explored; 1 + 'VIOLATION property=<id> replay=<path>' reproduced violation; 2 + 'INCONCLUSIVE ...' harness/solver could not decide (never a violation claim). Known findings: /verif/known_findings.json.",
}
(HERE / "MANIFEST.json").write_text(json.dumps(manifest, indent=1) + "\n")
print("claimed:", [c["property_id"] for c in checks])
print("not_applicable:", [n["property_id"] for n in na])
