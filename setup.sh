#!/bin/sh
set -e
cd "$(dirname "$0")"
./ensure_env.sh
.venv/bin/python -c "import z3, numpy; print('symx env ok: z3', z3.get_version_string(), 'numpy', numpy.__version__)"
