#!/usr/bin/env python3
"""Regenerates seeded/SUMMARY.md from seeded/*/meta.json."""
import json, pathlib

HERE = pathlib.Path(__file__).resolve().parent.parent
rows = []
for d in sorted((HERE / "seeded").iterdir()):
    m = d / "meta.json"
    if not m.exists():
        continue
    j = json.loads(m.read_text())
    runs = j.get("checks_run") or []
    caught = [r["check"] for r in runs if r.get("caught")]
    status = "caught by " + ", ".join(caught) if caught else ("INCONCLUSIVE (exit 2)" if any(r["exit"] == 2 for r in runs) else "missed (exit 0)")
    note = j.get("note", "")
    rows.append((d.name, j.get("property"), (j.get("summary") or "").replace("|", "/")[:170], (j.get("needs_to_manifest") or "").replace("|", "/")[:150],
                 "yes" if j.get("confirmed_by_me") else "NO", status, note))
out = ["# Seeded changes (written by sub-agents from the property text only; confirmed and evaluated with tools/seed_eval.py)", "",
       "| seed | property | change | needs to manifest | confirmed | result of ./check (quick) | note |", "|---|---|---|---|---|---|---|"]
for r in rows:
    out.append("| " + " | ".join(str(x) for x in r) + " |")
c = sum(1 for r in rows if r[5].startswith("caught"))
out += ["", f"{c} of {len(rows)} caught."]
(HERE / "seeded" / "SUMMARY.md").write_text("\n".join(out) + "\n")
print(f"{c}/{len(rows)} caught")
