#!/usr/bin/env python3
"""Calibration helper (not a manifest check): apply a mutant to a scratch copy of /repo under /dev/shm,
run ./check <prop> against it via VERIF_REPO, report the exit code, delete the copy.

  tools/mutant.py C01 --file score_analysis/scores.py --old 'tn += self.nb_easy_neg' --new 'tn += 0'
  tools/mutant.py C01 --patch path/to/patch.diff
  tools/mutant.py --selftest            (runs mutants/*.json; expects the recorded exit codes)
"""
import argparse, json, os, pathlib, shutil, subprocess, sys, tempfile, time

HERE = pathlib.Path(__file__).resolve().parent.parent


def run_one(prop, file=None, old=None, new=None, patch=None, tier="quick", extra=(), count=1, keep=False):
    d = pathlib.Path(tempfile.mkdtemp(prefix="symx_mut_", dir="/dev/shm"))
    try:
        shutil.copytree("/repo/score_analysis", d / "score_analysis")
        if (pathlib.Path("/repo") / "tests").exists():
            pass
        if patch:
            r = subprocess.run(["patch", "-p1", "-d", str(d), "-i", str(pathlib.Path(patch).resolve())], capture_output=True, text=True)
            if r.returncode:
                return {"error": "patch failed: " + r.stdout + r.stderr}
        else:
            f = d / file
            s = f.read_text()
            if s.count(old) < 1:
                return {"error": f"pattern not found in {file}"}
            f.write_text(s.replace(old, new, count))
        env = dict(os.environ, VERIF_REPO=str(d))
        t0 = time.time()
        r = subprocess.run([str(HERE / "check"), prop, "--tier", tier, "--no-evidence", *extra], capture_output=True, text=True, env=env, cwd=HERE)
        return {"exit": r.returncode, "wall_s": round(time.time() - t0, 1), "tail": "\n".join((r.stdout + r.stderr).strip().splitlines()[-6:])}
    finally:
        if not keep:
            shutil.rmtree(d, ignore_errors=True)


def main():
    ap = argparse.ArgumentParser()
    ap.add_argument("prop", nargs="?")
    ap.add_argument("--file"); ap.add_argument("--old"); ap.add_argument("--new"); ap.add_argument("--patch")
    ap.add_argument("--tier", default="quick"); ap.add_argument("--selftest", action="store_true"); ap.add_argument("--only")
    ap.add_argument("--count", type=int, default=1)
    a = ap.parse_args()
    if a.selftest:
        bad = 0
        for f in sorted((HERE / "mutants").glob("*.json")):
            for m in json.loads(f.read_text()):
                if a.only and a.only not in m["name"] and a.only != m["prop"]:
                    continue
                if m.get("patch"):
                    m = dict(m, patch=str(HERE / m["patch"]))
                r = run_one(m["prop"], m.get("file"), m.get("old"), m.get("new"), m.get("patch"), m.get("tier", "quick"), count=m.get("count", 1))
                ok = r.get("exit") == m["expect"]
                bad += not ok
                print(("ok  " if ok else "BAD ") + f"{m['prop']} {m['name']}: exit={r.get('exit')} expect={m['expect']} {r.get('wall_s')}s" + ("" if ok else "\n" + str(r.get("tail") or r.get("error"))))
        sys.exit(1 if bad else 0)
    r = run_one(a.prop, a.file, a.old, a.new, a.patch, a.tier, count=a.count)
    print(json.dumps(r, indent=1))
    print(r.get("tail", ""))


if __name__ == "__main__":
    main()
