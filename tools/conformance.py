#!/usr/bin/env python3
"""Conformance run (model validation, not a manifest check): the repository's own pytest suite executed against
`sa_sym` — the repository source over the symx NumPy/SciPy/pandas models in concrete mode (every cell a Python
number, no solver involved).  Disagreements are model bugs (or documented model limits)."""
import os, sys, pathlib, importlib

HERE = pathlib.Path(__file__).resolve().parent.parent
sys.path.insert(0, str(HERE))
from symx import loader, core  # noqa: E402

core.CONCRETE[0] = True

pkg = loader.load()
# alias: tests import `score_analysis...`
for k in list(sys.modules):
    if k == "sa_sym" or k.startswith("sa_sym."):
        sys.modules["score_analysis" + k[len("sa_sym"):]] = sys.modules[k]
for sub in ("scores", "cm", "metrics", "utils", "group_scores", "roc_curve", "showbias", "experimental", "experimental.datasets", "experimental.roc_ci",
            "applications", "applications.doc_fraud"):
    m = importlib.import_module("sa_sym." + sub)
    sys.modules["score_analysis." + sub] = m

import pytest  # noqa: E402

root = os.environ.get("VERIF_REPO", "/repo")
os.chdir(root)
args = [a for a in sys.argv[1:]]
targets = [a for a in args if a.startswith("tests")] or ["tests"]
opts = [a for a in args if not a.startswith("tests")]
sys.exit(pytest.main(["-q", "-p", "no:cacheprovider", "--tb=line"] + opts + targets))
