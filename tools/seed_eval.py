#!/usr/bin/env python3
"""Confirm a seeded change and run the property's check against it.

  tools/seed_eval.py <seed_change_dir> <PROP> <seed_id> [--tier quick] [--checks C01,C08]

Steps (all in a scratch git worktree of /repo under /tmp, removed afterwards):
  1. clean worktree: demo.py must PASS
  2. git apply patch.diff; full pytest suite must pass (384); demo.py must FAIL
  3. ./check <PROP> with VERIF_REPO=<worktree>  -> exit code recorded (1 = caught)
Writes /verif/seeded/<seed_id>/{patch.diff,demo.py,meta.json}.
"""
import argparse, json, os, pathlib, shutil, subprocess, sys, time

HERE = pathlib.Path(__file__).resolve().parent.parent


def sh(cmd, cwd=None, env=None, timeout=3600):
    r = subprocess.run(cmd, cwd=cwd, env=env, capture_output=True, text=True, timeout=timeout)
    return r.returncode, (r.stdout + r.stderr)


def main():
    ap = argparse.ArgumentParser()
    ap.add_argument("seed_dir"); ap.add_argument("prop"); ap.add_argument("seed_id")
    ap.add_argument("--tier", default="quick"); ap.add_argument("--checks", default=None); ap.add_argument("--skip-tests", action="store_true")
    a = ap.parse_args()
    sd = pathlib.Path(a.seed_dir)
    wt = pathlib.Path(f"/tmp/wt_eval_{a.seed_id}")
    sh(["git", "-C", "/repo", "worktree", "remove", "--force", str(wt)])
    rc, out = sh(["git", "-C", "/repo", "worktree", "add", "-q", "--detach", str(wt), "HEAD"])
    assert rc == 0, out
    meta = json.loads((sd / "meta.json").read_text()) if (sd / "meta.json").exists() else {}
    res = {"seed_id": a.seed_id, "property": a.prop, "agent_meta": meta, "ran": []}
    try:
        py = "/venv/bin/python"
        denv = dict(os.environ, PYTHONPATH=str(wt))
        rc0, out0 = sh([py, str(sd / "demo.py")], cwd=wt, env=denv)
        res["demo_on_clean"] = {"exit": rc0, "tail": out0.strip().splitlines()[-1:] }
        rc, out = sh(["git", "-C", str(wt), "apply", str(sd / "patch.diff")])
        res["patch_applies"] = rc == 0
        if rc != 0:
            # the patch was written against an earlier HEAD of /repo: retry with a 3-way / fuzzy apply
            rc, out2 = sh(["git", "-C", str(wt), "apply", "--3way", str(sd / "patch.diff")])
            if rc != 0:
                rc, out2 = sh(["patch", "-p1", "-d", str(wt), "-i", str(sd / "patch.diff")])
            res["patch_applies"] = rc == 0
            if rc != 0:
                print(json.dumps({"seed": a.seed_id, "error": "patch does not apply to the current HEAD; previous meta kept"}))
                return
        if not a.skip_tests:
            rc, out = sh([py, "-m", "pytest", "-q", "-p", "no:cacheprovider", "-x"], cwd=wt)
            res["pytest"] = {"exit": rc, "summary": out.strip().splitlines()[-1] if out.strip() else ""}
        rc1, out1 = sh([py, str(sd / "demo.py")], cwd=wt, env=denv)
        res["demo_with_change"] = {"exit": rc1, "tail": out1.strip().splitlines()[-1:]}
        res["confirmed"] = bool(rc0 == 0 and rc1 != 0 and (a.skip_tests or res["pytest"]["exit"] == 0))
        for prop in (a.checks.split(",") if a.checks else [a.prop]):
            env = dict(os.environ, VERIF_REPO=str(wt))
            t0 = time.time()
            rc, out = sh([str(HERE / "check"), prop, "--tier", a.tier, "--no-evidence"], cwd=HERE, env=env, timeout=7200)
            lines = [l for l in out.strip().splitlines() if l.startswith(("VIOLATION", "INCONCLUSIVE", "OK", "[", "  obligation"))]
            res["ran"].append({"check": prop, "tier": a.tier, "exit": rc, "wall_s": round(time.time() - t0, 1), "caught": rc == 1, "output": [l[:400] for l in lines[:6]]})
    finally:
        sh(["git", "-C", "/repo", "worktree", "remove", "--force", str(wt)])
    finish(a, sd, res)


def finish(a, sd, res):
    out = HERE / "seeded" / a.seed_id
    out.mkdir(parents=True, exist_ok=True)
    for f in ("patch.diff", "demo.py"):
        if (sd / f).exists() and (sd / f).resolve() != (out / f).resolve():
            shutil.copy(sd / f, out / f)
    prev = {}
    if (out / "meta.json").exists():
        try:
            prev = json.loads((out / "meta.json").read_text())
        except Exception:
            prev = {}
    if res.get("pytest") is None and prev.get("pytest_with_change"):
        res["pytest"] = prev["pytest_with_change"]      # tests were run in an earlier evaluation of the same patch
        res["confirmed"] = bool(res.get("demo_on_clean", {}).get("exit") == 0 and res.get("demo_with_change", {}).get("exit") not in (0, None) and res["pytest"]["exit"] == 0)
    m = {"property": a.prop, "summary": res.get("agent_meta", {}).get("summary"), "needs_to_manifest": res.get("agent_meta", {}).get("needs_to_manifest"),
         "confirmed_by_me": res.get("confirmed"), "demo_on_clean": res.get("demo_on_clean"), "demo_with_change": res.get("demo_with_change"),
         "pytest_with_change": res.get("pytest"), "checks_run": res.get("ran"), "note": prev.get("note", ""), "how": "tools/seed_eval.py: scratch worktree of /repo, git apply, pytest, demo, ./check with VERIF_REPO=<worktree>; worktree removed"}
    (out / "meta.json").write_text(json.dumps(m, indent=1))
    print(json.dumps({"seed": a.seed_id, "confirmed": res.get("confirmed"), "checks": [(r["check"], r["exit"], r["wall_s"]) for r in res.get("ran", [])]}))


if __name__ == "__main__":
    main()
