"""C06 — EER is a crossing point (R-ideal; eer() cut at _find_root, which is verified separately)."""
import itertools

from .common import CFGS
from .thr import numerator

META = {
    "bounds": {
        "quick": {"_find_root": "symbolic xa <= xe, xtol > 0, monotone uninterpreted f; |xe-xa| < 4*xtol (<= 2 bisection steps); both find_first values",
                  "eer() crossing clause": "all interleavings of P+N <= 4 equally spaced tie-free scores (ranks), easy counts {(0,0),(1,2),(3,0)}, bisection outcome symbolic (any interval allowed by the verified _find_root contract)",
                  "zero-EER clause / range / cap": "symbolic scores with ties, P,N <= 2"},
        "thorough": {"_find_root": "|xe-xa| < 8*xtol (<= 3 steps)", "eer() crossing clause": "P+N <= 6", "zero-EER clause": "P,N <= 3"},
    },
    "assumptions": ["R-ideal: exact real arithmetic", "assume-guarantee cut: inside eer() the bisection is replaced by its verified contract — it returns the mid-point of SOME interval [a,b] in [xa,xe] with b-a < xtol and f(a) <= 0 <= f(b) "
                    "(first/last-root side conditions included); the contract is discharged on the real _find_root for bounded step counts and extends to any number of steps by induction on the loop (each step halves the interval and keeps f(lo) <= 0 <= f(hi))",
                    "crossing clause claimed for equally spaced scores (any equal spacing by C08's affine lemma); unequal spacings are outside the claim (bilinear queries)",
                    "float rounding of the shortcut mid-point is decided in the F-bits regime (kind=fbits: z3 FloatingPoint, symbolic doubles through the real eer()/cm() on 1+1 scores) and replayed as a concrete regression witness"],
}
OPTS = {"quick": {"query_timeout_ms": 30000, "max_paths": 50000, "max_decisions": 2000}, "thorough": {"query_timeout_ms": 120000, "max_paths": 500000, "max_decisions": 5000}}
XTOL = "1/10000000000"


def _interleavings(P, N):
    for pos_ranks in itertools.combinations(range(P + N), P):
        yield list(pos_ranks)


def _weak_orders(P, N):
    """all tie patterns of P sorted positives and N sorted negatives as dense integer ranks."""
    out = []
    for pr in itertools.combinations_with_replacement(range(P + N), P):
        for nr in itertools.combinations_with_replacement(range(P + N), N):
            used = sorted(set(pr + nr))
            if used == list(range(len(used))):
                out.append((list(pr), list(nr)))
    return out


def items(tier):
    out = []
    for ff in (True, False):
        out.append({"kind": "find_root", "find_first": ff, "steps": 2 if tier == "quick" else 3})
    out.append({"kind": "find_root_invalid"})
    for sc, ec in CFGS:
        out.append({"kind": "fbits", "sc": sc, "ec": ec})
    sizes = [(1, 1), (2, 1), (1, 2), (2, 2)] if tier == "quick" else [(1, 1), (2, 1), (1, 2), (2, 2), (3, 2), (2, 3), (3, 3)]
    easy = [(0, 0), (1, 2), (3, 0)] if tier == "quick" else [(0, 0), (1, 2), (3, 0), (0, 4), (2, 2)]
    huge = [(10 ** 8, 10 ** 8), (0, 10 ** 6)]      # easy samples outnumbering the scored ones by many orders of magnitude
    for sc, ec in CFGS:
        for P, N in sizes:
            for pr in _interleavings(P, N):
                for kp, kn in easy + (huge if (P, N) == (2, 2) else []):
                    out.append({"kind": "crossing", "sc": sc, "ec": ec, "P": P, "N": N, "pos_ranks": pr, "kp": kp, "kn": kn})
        for P, N in [(1, 1)]:      # fully symbolic scores (ties allowed): bilinear (solver-unknown) beyond this size
            for kp, kn in easy[:2]:
                out.append({"kind": "zero", "sc": sc, "ec": ec, "P": P, "N": N, "kp": kp, "kn": kn})
        for P, N in ([(2, 1), (1, 2), (2, 2)] if tier == "quick" else [(2, 1), (1, 2), (2, 2), (3, 2), (2, 3), (3, 3)]):      # every tie pattern, equally spaced values
            for pr, nr in _weak_orders(P, N):
                if len(set(pr + nr)) == P + N:
                    continue      # tie-free patterns are the crossing items
                for kp, kn in easy[:2]:
                    out.append({"kind": "ties", "sc": sc, "ec": ec, "pos_ranks": pr, "neg_ranks": nr, "kp": kp, "kn": kn})
        for P, N in [(2, 2)] if tier == "quick" else [(2, 2), (3, 2)]:
            for pr in _interleavings(P, N):
                out.append({"kind": "equivariance", "sc": sc, "ec": ec, "P": P, "N": N, "pos_ranks": pr})
    return out


def run(h, kind, **p):
    return globals()["run_" + kind](h, **p)


# ---------------------------------------------------------------------------------------------------
class Spy:
    """monotone (non-decreasing) uninterpreted function, memoised per argument term; logs its calls."""

    def __init__(self, h, tag="f"):
        self.h, self.tag, self.calls = h, tag, []

    def __call__(self, x):
        h = self.h
        for a, v in self.calls:
            if a is x or (h.mode == "conc" and a == x):
                return v
            if h.mode == "sym":
                from symx.core import raw, is_sym

                ra, rx = raw(a), raw(x)
                if (is_sym(ra) and is_sym(rx) and ra.eq(rx)) or (not is_sym(ra) and not is_sym(rx) and ra == rx):
                    return v
        v = h.real(f"{self.tag}{len(self.calls)}", float_atom=False)
        for a, w in self.calls:
            h.assume(h.And(h.Implies(a <= x, w <= v), h.Implies(a >= x, w >= v)))
        self.calls.append((x, v))
        return v


def run_find_root(h, find_first, steps):
    xa, xe = h.real("xa", float_atom=False), h.real("xe", float_atom=False)
    xtol = h.real("xtol", float_atom=False)
    h.assume(h.And(xtol > 0, xa <= xe, xe - xa < (2 ** steps) * xtol))
    f = Spy(h)
    fa, fe = f(xa), f(xe)
    valid = h.And(fa <= 0, 0 <= fe)
    try:
        rho = h.sa.Scores._find_root(f, xa, xe, find_first, xtol=xtol)
    except ValueError:
        h.check("_find_root raises ValueError only without a sign change f(xa) <= 0 <= f(xe)", h.Not(valid))
        return
    h.check("_find_root accepts exactly the brackets with f(xa) <= 0 <= f(xe)", valid)
    pts = list(f.calls)
    alts = []
    for (a, va) in pts:
        for (b, vb) in pts:
            side = h.Or(va < 0, h.eq(a, xa, 0)) if find_first else h.Or(vb > 0, h.eq(b, xe, 0))
            alts.append(h.And(a <= b, b - a < xtol, xa <= a, b <= xe, va <= 0, 0 <= vb, h.eq(2 * rho, a + b), side))
    h.check("_find_root returns the mid-point of an evaluated bracket [a,b] of width < xtol inside [xa,xe] with f(a) <= 0 <= f(b) "
            "(leftmost such bracket for find_first, rightmost otherwise)", h.Or(alts))
    h.check("at most `steps` bisection steps were needed", len(pts) <= 2 + steps)


def run_find_root_invalid(h):
    f = Spy(h)
    xa, xe = h.real("xa", float_atom=False), h.real("xe", float_atom=False)
    h.assume(xa <= xe)
    h.assume(h.Or(f(xa) > 0, f(xe) < 0))
    try:
        h.sa.Scores._find_root(f, xa, xe, True)
        h.fail("_find_root must raise ValueError without a sign change")
    except ValueError:
        h.check("_find_root raises ValueError without a sign change", True)


# ---------------------------------------------------------------------------------------------------
def _install_contract(h, S):
    """replace the bisection by its verified contract (symbolic mode only)."""
    if h.mode != "sym":
        return lambda: None
    cls = type(S)
    orig = cls.__dict__["_find_root"]
    counter = [0]

    def contract(f, xa, xe, find_first, xtol=h.const(XTOL)):
        fa, fe = f(xa), f(xe)
        if not (fa <= 0 and 0 <= fe):
            raise ValueError(f"f({xa}) <= 0 <= f({xe}) not satisfied.")
        k = counter[0]
        counter[0] += 1
        a, b = h.real(f"bis_a{k}", float_atom=False), h.real(f"bis_b{k}", float_atom=False)
        h.assume(h.And(xa <= a, a <= b, b <= xe, b - a < xtol))
        va, vb = f(a), f(b)
        h.assume(h.And(va <= 0, 0 <= vb))
        h.assume(h.Or(va < 0, h.eq(a, xa, 0)) if find_first else h.Or(vb > 0, h.eq(b, xe, 0)))
        return (a + b) / 2

    cls._find_root = staticmethod(contract)
    return lambda: setattr(cls, "_find_root", orig)


def _eer(h, S):
    restore = _install_contract(h, S)
    try:
        return S.eer()
    finally:
        restore()


def _ranked(h, P, N, pos_ranks, a=1, b=0):
    pos = [h.const(str(r)) * a + b for r in pos_ranks]
    neg = [h.const(str(r)) * a + b for r in range(P + N) if r not in pos_ranks]
    return pos, neg


def _own_counts(h, S, t):
    cm = h.cells(S.cm(t).matrix)
    return cm[1], cm[2]      # FN, FP


def run_crossing(h, sc, ec, P, N, pos_ranks, kp, kn):
    pos, neg = _ranked(h, P, N, pos_ranks)
    h.policy(gather="fork")
    S = h.sa.Scores(h.array(pos), h.array(neg), nb_easy_pos=kp, nb_easy_neg=kn, score_class=sc, equal_class=ec)
    t, e = _eer(h, S)
    Pt, Nt = P + kp, N + kn
    xtol = h.const(XTOL)
    h.check("0 <= EER <= 1", h.And(h.le(0, e), h.le(e, 1)))
    cap = min(P / Pt, N / Nt)
    h.check("EER never exceeds the smaller hard-sample fraction", h.le(e, h.const(f"{P * Nt if P * Nt <= N * Pt else N * Pt}/{Pt * Nt}")))
    fn, fp = _own_counts(h, S, t)
    h.check("FPR at the EER threshold is within one sample of the EER", h.And(h.le(fp - e * Nt, 1 + xtol * Nt), h.le(e * Nt - fp, 1 + xtol * Nt)))
    h.check("FNR at the EER threshold is within one sample of the EER", h.And(h.le(fn - e * Pt, 1 + xtol * Pt), h.le(e * Pt - fn, 1 + xtol * Pt)))
    h.check("a reported EER of 0 comes with an error-free threshold", h.Implies(h.eq(e, 0, 0), h.And(h.eq(fn, 0), h.eq(fp, 0))))


def run_ties(h, sc, ec, pos_ranks, neg_ranks, kp, kn):
    pos, neg = [h.const(str(r)) for r in pos_ranks], [h.const(str(r)) for r in neg_ranks]
    P, N = len(pos), len(neg)
    h.policy(gather="fork")
    S = h.sa.Scores(h.array(pos), h.array(neg), nb_easy_pos=kp, nb_easy_neg=kn, score_class=sc, equal_class=ec)
    t, e = _eer(h, S)
    Pt, Nt = P + kp, N + kn
    h.check("0 <= EER <= 1 (tie pattern)", h.And(h.le(0, e), h.le(e, 1)))
    h.check("EER <= smaller hard-sample fraction (tie pattern)", h.And(h.le(e * Pt, P), h.le(e * Nt, N)))
    fn, fp = _own_counts(h, S, t)
    h.check("a reported EER of 0 comes with a threshold at which there are no errors (tie pattern)", h.Implies(h.eq(e, 0, 0), h.And(h.eq(fn, 0), h.eq(fp, 0))))


def run_zero(h, sc, ec, P, N, kp, kn):
    pos, neg = h.reals("p", P), h.reals("n", N)
    for a in (pos, neg):
        for i in range(len(a) - 1):
            h.assume(a[i] <= a[i + 1])
    h.policy(gather="fork")
    S = h.sa.Scores(h.array(pos), h.array(neg), nb_easy_pos=kp, nb_easy_neg=kn, score_class=sc, equal_class=ec)
    t, e = _eer(h, S)
    Pt, Nt = P + kp, N + kn
    h.check("0 <= EER <= 1 (ties allowed)", h.And(h.le(0, e), h.le(e, 1)))
    h.check("EER <= smaller hard-sample fraction (ties allowed)", h.And(h.le(e * Pt, P), h.le(e * Nt, N)))
    fn, fp = _own_counts(h, S, t)
    h.check("a reported EER of 0 comes with a threshold at which there are no errors (any input incl. ties)",
            h.Implies(h.eq(e, 0, 0), h.And(h.eq(fn, 0), h.eq(fp, 0))))
    sep = h.And([(p > n) if sc == "pos" else (p < n) for p in pos for n in neg])
    h.check("strictly separated classes: EER 0", h.Implies(sep, h.eq(e, 0, 0)))


def run_equivariance(h, sc, ec, P, N, pos_ranks):
    """the bisection's control flow depends on f only through sign(f(x)); that sign is invariant under increasing
    affine maps and under negation + direction flip (tie-free), for every x in [0, max_eer]."""
    h.policy(gather="fork")
    x = h.real("x", float_atom=False)
    kp, kn = 1, 2
    cap = h.const(f"{min(P * (N + kn), N * (P + kp))}/{(P + kp) * (N + kn)}")
    h.assume(h.And(0 <= x, x <= cap))

    def sign_of_f(S, scores):
        # sign(sgn * d) computed from the two signs separately: the product of two symbolic terms would make the query
        # nonlinear for nothing
        sgn = -(S.threshold_at_fpr(h.const("0")) - S.threshold_at_fnr(h.const("0")))
        c, d_ = S.threshold_at_fpr(x), S.threshold_at_fnr(x)
        d = c - d_
        s1 = h.ite(sgn > 0, 1, h.ite(sgn < 0, -1, 0))
        s2 = h.ite(d > 0, 1, h.ite(d < 0, -1, 0))
        # ulp zone: an interpolated threshold strictly within one float step of a score.  There the one-step sentinel
        # (nextafter) of the other metric decides the sign, and a float step is not affine-equivariant: outside the claim.
        zone = []
        for v in scores:
            lo_, up_ = h.np.nextafter(v * 1.0 if h.mode != "sym" else v, -float("inf")), h.np.nextafter(v * 1.0 if h.mode != "sym" else v, float("inf"))
            for t in (c, d_):
                zone.append(h.Or(h.And(h.le(lo_, t, 0), t < v), h.And(v < t, h.le(t, up_, 0))))
        return s1 * s2, h.Or(zone)

    pos, neg = _ranked(h, P, N, pos_ranks)
    S = h.sa.Scores(h.array(pos), h.array(neg), nb_easy_pos=kp, nb_easy_neg=kn, score_class=sc, equal_class=ec)
    s0, z0 = sign_of_f(S, pos + neg)
    for a, b in (("1/2", "-7"), ("3", "5")):
        pa, na = _ranked(h, P, N, pos_ranks, h.const(a), h.const(b))
        A = h.sa.Scores(h.array(pa), h.array(na), nb_easy_pos=kp, nb_easy_neg=kn, score_class=sc, equal_class=ec)
        sA, zA = sign_of_f(A, pa + na)
        h.check(f"sign of the EER root function is invariant under s -> {a}*s + {b} (outside the one-float-step zone around the scores)", h.Or(z0, zA, h.eq(sA, s0)))
    other = {"pos": "neg", "neg": "pos"}[sc]
    npos, nneg = [-v for v in pos], [-v for v in neg]
    R = h.sa.Scores(h.array(npos), h.array(nneg), nb_easy_pos=kp, nb_easy_neg=kn, score_class=other, equal_class=ec)
    sR, zR = sign_of_f(R, npos + nneg)
    h.check("sign of the EER root function is invariant under negation + direction flip (outside the one-float-step zone)", h.Or(z0, zR, h.eq(sR, s0)))


def run_fbits(h, sc, ec):
    """F-bits: the perfect-separation shortcut on SYMBOLIC IEEE doubles (one positive, one negative, strictly separated
    in the right direction, incl. adjacent doubles whose mid-point rounds onto one of them): the real eer() returns
    EER 0 with a threshold at which the real cm() counts no error."""
    x, y = h.fp("pos0"), h.fp("neg0")
    h.assume((x > y) if sc == "pos" else (x < y))
    S = h.sa.Scores(h.array([x]), h.array([y]), score_class=sc, equal_class=ec, is_sorted=True)
    t, e = S.eer()
    h.check("[float64] strictly separated classes: EER is exactly 0", e == 0)
    m = h.cells(S.cm(t).matrix)
    h.check("[float64] zero EER comes with an error-free threshold for every pair of doubles (adjacent ones included)", h.And(h.eq(m[1], 0), h.eq(m[2], 0)))
    lo, up = (y, x) if sc == "pos" else (x, y)
    h.check("[float64] the threshold lies between the two scores", h.And(lo <= t, t <= up))


def regressions(h):
    """concrete witnesses of defects that were fixed (known_findings.json); replayed against the real code on every run."""
    np = h.np
    S = h.sa.Scores
    for sc, ec in CFGS:
        pos, neg = ([np.nextafter(1.0, 2.0), 2.0], [0.0, 1.0]) if sc == "pos" else ([0.0, 1.0], [np.nextafter(1.0, 2.0), 2.0])
        s = S(pos, neg, score_class=sc, equal_class=ec)
        t, e = s.eer()
        m = s.cm(t).matrix
        h.check(f"[regression {sc}/{ec}] adjacent doubles: EER 0 comes with an error-free threshold", not (e == 0 and (m[0, 1] or m[1, 0])))
        s = S([1, 2], [0, 1], score_class=sc, equal_class=ec) if sc == "pos" else S([0, 1], [1, 2], score_class=sc, equal_class=ec)
        t, e = s.eer()
        m = s.cm(t).matrix
        h.check(f"[regression {sc}/{ec}] cross-class tie: EER 0 comes with an error-free threshold", not (e == 0 and (m[0, 1] or m[1, 0])))
