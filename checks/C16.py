"""C16 — ROC confidence bands are well-formed envelopes of pointwise rectangles (R-ideal; deterministic samplers)."""
from .common import CFGS
from .thr import numerator

META = {
    "bounds": {"quick": {"units": "_apply_rule_of_three: n <= 3 points, counts k_i symbolic in [0,n], ci and alpha symbolic; _aggregate_rectangles: n <= 2 fully symbolic; _add_extra_points: symbolic range, <= 4 points",
                         "end to end": "roc_with_ci and the three experimental functions on P,N <= 2 symbolic sorted scores (one path per order type incl. one-step neighbours), identity sampler and a deterministic 2-sample sampler, bootstrap methods quantile/bc/bca, "
                                       "ROC_CI_EXTRA_POINTS lowered to 4 / 6 by assigning the module variable"},
               "thorough": {"units": "_aggregate_rectangles n <= 3", "end to end": "P,N <= 3 for the identity sampler"}},
    "assumptions": ["R-ideal", "pow(alpha, 1/n): uninterpreted with a <= pow(a,e) < 1 for 0<a<1, 0<e<=1 (symbolic alpha) or enclosed constant (concrete alpha); ksone.ppf: concrete SciPy value enclosed to 1e-12",
                    "band well-formedness under ARBITRARY RNG outcomes is outside the claim: samplers are the identity and a deterministic callable (symbolic bootstrap of vector threshold inversions exceeds the path budget)",
                    "no easy samples in the end-to-end items (the rule-of-three trigger of the property is 'rate exactly 0 or 1')"],
}
OPTS = {"quick": {"query_timeout_ms": 30000, "max_paths": 50000, "max_decisions": 20000}, "thorough": {"query_timeout_ms": 120000, "max_paths": 500000, "max_decisions": 50000}}


def items(tier):
    out = []
    for n in (1, 2, 3):
        out.append({"kind": "rule3", "n": n, "m": 2})
    out.append({"kind": "aggregate", "n": 2})
    if tier == "thorough":
        out.append({"kind": "aggregate", "n": 3})
    out.append({"kind": "extra", "nb": 4})
    out.append({"kind": "extra", "nb": 3})
    szs = [(1, 1), (2, 1), (1, 2)] if tier == "quick" else [(1, 1), (2, 1), (1, 2), (2, 2)]
    for fn in ("roc_with_ci", "pointwise_band_ci", "simultaneous_joint_region_ci", "fixed_width_band_ci"):
        for i, (P, N) in enumerate(szs):
            for sc, ec in (CFGS if (P, N) == (1, 1) else [CFGS[i % 4], CFGS[(i + 3) % 4]]):
                for sampler in ("identity", "dropper"):
                    if sampler == "dropper" and (fn == "simultaneous_joint_region_ci" or P < 2):
                        continue
                    for method in (("quantile", "bc", "bca") if (fn == "roc_with_ci" and (P, N) != (2, 2)) else ("quantile",)):
                        out.append({"kind": "e2e", "fn": fn, "sc": sc, "ec": ec, "P": P, "N": N, "sampler": sampler, "method": method, "support": "scores"})
        out.append({"kind": "e2e", "fn": fn, "sc": "pos", "ec": "pos", "P": 2, "N": 1, "sampler": "identity", "method": "quantile", "support": "nb_points"})
        if fn != "fixed_width_band_ci":
            out.append({"kind": "e2e", "fn": fn, "sc": "neg", "ec": "pos", "P": 1, "N": 2, "sampler": "identity", "method": "quantile", "support": "user"})
        if fn == "roc_with_ci":
            # user support points TOGETHER with nb_points (every small value): the call is accepted and the curve well-formed
            for nbp in ((0, 2, 3) if tier == "quick" else (0, 1, 2, 3, 4, 5)):
                out.append({"kind": "e2e", "fn": fn, "sc": "pos", "ec": "neg", "P": 2, "N": 1, "sampler": "identity", "method": "quantile", "support": f"user+{nbp}"})
    return out


def run(h, kind, **p):
    return globals()["run_" + kind](h, **p)


def match_known(v, known):
    """region predicates of the open known findings (known_findings.json)"""
    for k in known:
        reg = k.get("region", {})
        if reg.get("fn") and v["params"].get("fn") != reg["fn"]:
            continue
        rp = v.get("replay", {})
        if reg.get("exception") and not (rp.get("status") == "exception" and rp.get("exc_type", rp.get("exc", "")).startswith(reg["exception"])):
            continue
        if reg.get("message_contains") and reg["message_contains"] not in str(rp.get("exc", "")):
            continue
        if reg.get("support") and v["params"].get("support") != reg["support"]:
            continue
        if any(k2 in reg and v["params"].get(k2) != reg[k2] for k2 in ("P", "N")):
            continue
        return k["id"]
    return None


def _pow(h, a, e):
    if h.mode == "sym":
        from symx import math as smath

        return smath.pow(a, e)
    import math

    return math.pow(a, e)


def _alpha(h):
    a = h.real("alpha", float_atom=False)
    h.assume(h.And(a > 0, a < 1))
    return a


def run_rule3(h, n, m):
    """m points with rates k_i/n"""
    ks = h.ints("k", m, 0, n)
    al = _alpha(h)
    p = h.array([k / h.const(str(n)) for k in ks])
    ci_cells = [[h.real(f"ci{i}_0", float_atom=False), h.real(f"ci{i}_1", float_atom=False)] for i in range(m)]
    out = h.sa.roc_curve._apply_rule_of_three(p=p, ci=h.np.asarray(ci_cells), alpha=al, n=n)
    h.check("rule of three keeps the shape (m,2)", h.shape(out) == (m, 2))
    o = h.cells(out)
    pw = _pow(h, al, h.const(f"1/{n}"))
    for i, k in enumerate(ks):
        lo, hi = o[2 * i], o[2 * i + 1]
        h.check("observed rate exactly 0: interval [0, 1 - alpha^(1/n)]", h.Implies(h.eq(k, 0), h.And(h.eq(lo, 0), h.eq(hi, 1 - pw))))
        h.check("observed rate exactly 1: interval [alpha^(1/n), 1]", h.Implies(h.eq(k, n), h.And(h.eq(lo, pw), h.eq(hi, 1))))
        h.check("any other observed rate keeps its bootstrap interval", h.Implies(h.And(k > 0, k < n), h.And(h.eq(lo, ci_cells[i][0], 0), h.eq(hi, ci_cells[i][1], 0))))


def run_aggregate(h, n):
    x = h.reals("x", n, float_atom=False)
    dx = [[h.real(f"dx{i}_0", float_atom=False), h.real(f"dx{i}_1", float_atom=False)] for i in range(n)]
    dy = [[h.real(f"dy{i}_0", float_atom=False), h.real(f"dy{i}_1", float_atom=False)] for i in range(n)]
    out = h.sa.roc_curve._aggregate_rectangles(h.array(x), h.np.asarray(dx), h.np.asarray(dy))
    h.check("band shape (n,2)", h.shape(out) == (n, 2))
    o = h.cells(out)
    for j in range(n):
        cover = [h.And(dx[i][0] <= x[j], x[j] <= dx[i][1]) for i in range(n)]
        lo = h.min([dy[j][0]] + [h.ite(cover[i], dy[i][0], dy[j][0]) for i in range(n)])
        hi = h.max([dy[j][1]] + [h.ite(cover[i], dy[i][1], dy[j][1]) for i in range(n)])
        h.check("band at a point = envelope of all rectangles covering it (its own included)", h.And(h.eq(o[2 * j], lo), h.eq(o[2 * j + 1], hi)))
    ordered_in = h.And([h.And(dy[i][0] <= dy[i][1], 0 <= dy[i][0], dy[i][1] <= 1) for i in range(n)])
    h.check("ordered inputs within [0,1] give ordered bands within [0,1]", h.Implies(ordered_in, h.And([h.And(h.le(o[2 * j], o[2 * j + 1]), h.le(0, o[2 * j]), h.le(o[2 * j + 1], 1)) for j in range(n)])))


def run_extra(h, nb):
    a, b = h.real("x_min", float_atom=False), h.real("x_max", float_atom=False)
    h.assume(h.And(0 <= a, a <= b, b <= 1))
    pts = h.cells(h.sa.roc_curve._add_extra_points(a, b, nb))
    h.check("extra points lie in [0,1] outside the covered range", h.And([h.And(0 <= v, v <= 1, h.Or(v < a, v > b)) for v in pts]))
    before, after = nb // 2, nb - nb // 2
    h.check("number of extra points", h.And(h.Implies(h.And(a > 0, b < 1), len(pts) == nb), h.Implies(h.And(h.eq(a, 0), b < 1), len(pts) == after),
                                              h.Implies(h.And(a > 0, h.eq(b, 1)), len(pts) == before), h.Implies(h.And(h.eq(a, 0), h.eq(b, 1)), len(pts) == 0)))


def _sampler(h, name):
    calls = [0]
    if name == "identity":
        return lambda src: src

    def drop(src):
        j = calls[0]
        calls[0] += 1
        pos = src.pos
        k = j % len(pos)
        keep = [i for i in range(len(pos)) if i != k] or [0]
        return h.sa.Scores(pos[keep], src.neg, score_class=src.score_class, equal_class=src.equal_class, is_sorted=True)

    return drop


def run_e2e(h, fn, sc, ec, P, N, sampler, method, support):
    pos, neg = h.reals("p", P), h.reals("n", N)
    for a in (pos, neg):
        for i in range(len(a) - 1):
            h.assume(a[i] <= a[i + 1])
    h.policy(sort="fork", gather="fork", fold=True)
    rc = h.sa.roc_curve
    old = rc.ROC_CI_EXTRA_POINTS
    rc.ROC_CI_EXTRA_POINTS = 4
    try:
        S = h.sa.Scores(h.array(pos), h.array(neg), score_class=sc, equal_class=ec, is_sorted=True)
        alpha = h.const("1/10")
        cfg = h.sa.BootstrapConfig(nb_samples=2, sampling_method=_sampler(h, sampler), bootstrap_method=method)
        f = getattr(h.sa, fn) if fn == "roc_with_ci" else getattr(h.sa.experimental, fn)
        kw = {}
        if support == "nb_points":
            kw["nb_points"] = 4
        elif support.startswith("user"):
            kw["thresholds"] = h.array(h.reals("ut", 1))
            kw["fnr"] = h.array([h.const("1/2")])
            if "+" in support:
                kw["nb_points"] = int(support.split("+")[1])
        curve = f(S, alpha=alpha, config=cfg, **kw)
    finally:
        rc.ROC_CI_EXTRA_POINTS = old
    thr, fnr, fpr = h.cells(curve.thresholds), h.cells(curve.fnr), h.cells(curve.fpr)
    n = len(thr)
    h.check("curve has points and equal-length arrays", n >= 1 and len(fnr) == n and len(fpr) == n)
    for i, t in enumerate(thr):
        a, _ = numerator(h, "fnr", pos, neg, 0, 0, t, sc, ec)
        b, _ = numerator(h, "fpr", pos, neg, 0, 0, t, sc, ec)
        h.check("rates match the returned thresholds", h.And(h.eq(fnr[i] * P, a), h.eq(fpr[i] * N, b)))
    for name in ("fnr_ci", "fpr_ci"):
        band = getattr(curve, name)
        h.check(f"{name}: shape (n,2)", h.shape(band) == (n, 2))
        c = h.cells(band)
        h.check(f"{name}: NaN-free", not any(h.is_nan(v) for v in c))
        if not any(h.is_nan(v) for v in c):
            h.check(f"{name}: ordered (lower <= upper)", h.And([h.le(c[2 * i], c[2 * i + 1]) for i in range(n)]))
            if fn == "roc_with_ci":
                h.check(f"{name}: within [0,1]", h.And([h.And(h.le(0, c[2 * i]), h.le(c[2 * i + 1], 1)) for i in range(n)]))
    if fn in ("roc_with_ci", "pointwise_band_ci") and sampler == "identity":
        # closed form: pointwise interval = degenerate [v,v] unless the rate is exactly 0 / 1 (rule of three)
        # the bootstrapped quantity at point j is the rate re-derived through threshold setting on the other axis
        # (FNR at threshold_at_fpr(fpr_j), FPR at threshold_at_fnr(fnr_j)); under the identity sampler its interval
        # is degenerate at that value; the rule-of-three trigger looks at the observed rate of the curve
        def pointwise(v_obs, v_boot, cnt):
            pw = _pow(h, h.const("1/10"), h.const(f"1/{cnt}"))
            lo = h.ite(h.eq(v_obs, 0), 0, h.ite(h.eq(v_obs, 1), pw, v_boot))
            hi = h.ite(h.eq(v_obs, 0), 1 - pw, h.ite(h.eq(v_obs, 1), 1, v_boot))
            return lo, hi

        fn_boot = h.cells(S.fnr(S.threshold_at_fpr(curve.fpr)))
        fp_boot = h.cells(S.fpr(S.threshold_at_fnr(curve.fnr)))
        fn_iv = [pointwise(v, b, P) for v, b in zip(fnr, fn_boot)]
        fp_iv = [pointwise(v, b, N) for v, b in zip(fpr, fp_boot)]
        got_fnr, got_fpr = h.cells(curve.fnr_ci), h.cells(curve.fpr_ci)
        for j in range(n):
            if fn == "pointwise_band_ci":
                w_fn, w_fp = fn_iv[j], fp_iv[j]
            else:
                cov_fp = [h.And(fn_iv[i][0] <= fnr[j], fnr[j] <= fn_iv[i][1]) for i in range(n)]     # rectangles whose FNR interval covers the point
                w_fp = (h.min([fp_iv[j][0]] + [h.ite(cov_fp[i], fp_iv[i][0], fp_iv[j][0]) for i in range(n)]),
                        h.max([fp_iv[j][1]] + [h.ite(cov_fp[i], fp_iv[i][1], fp_iv[j][1]) for i in range(n)]))
                cov_fn = [h.And(fp_iv[i][0] <= fpr[j], fpr[j] <= fp_iv[i][1]) for i in range(n)]
                w_fn = (h.min([fn_iv[j][0]] + [h.ite(cov_fn[i], fn_iv[i][0], fn_iv[j][0]) for i in range(n)]),
                        h.max([fn_iv[j][1]] + [h.ite(cov_fn[i], fn_iv[i][1], fn_iv[j][1]) for i in range(n)]))
            h.check("identity sampler: bands equal the closed form (envelope of rule-of-three / degenerate intervals)",
                    h.And(h.eq(got_fnr[2 * j], w_fn[0]), h.eq(got_fnr[2 * j + 1], w_fn[1]), h.eq(got_fpr[2 * j], w_fp[0]), h.eq(got_fpr[2 * j + 1], w_fp[1])))
    if fn == "roc_with_ci":
        t_all = pos + neg
        inf = float("inf")
        lo_s, hi_s = h.min(t_all), h.max(t_all)
        h.check("support contains thresholds beyond the score range on both sides", h.And(h.Or([t < lo_s for t in thr]), h.Or([t > hi_s for t in thr])))
        view = h.cells(curve.fpr)
        h.check("default x-axis (fpr) non-decreasing along the curve", h.And([h.le(view[i], view[i + 1], 0) for i in range(n - 1)]))


def regressions(h):
    """auxiliary concrete sweep (float64, real NumPy): the rule-of-three trigger fires exactly at observed rates 0 and 1 for
    every class size n <= 200 and every count k <= n — the reals cannot see a trigger that differs only by rounding."""
    np = h.np
    f = h.sa.roc_curve._apply_rule_of_three
    bad = []
    for n in range(1, 201):
        k = np.arange(0, n + 1)
        p = k / n
        ci = np.stack([p, p], axis=-1)
        out = f(p=p, ci=ci, alpha=0.05, n=n)
        changed = np.any(out != ci, axis=-1)
        want = (k == 0) | (k == n)
        if not np.array_equal(changed, want):
            bad.append((n, k[changed != want].tolist()[:3]))
    h.check("[float sweep] rule-of-three rows are exactly the rates 0 and 1 (n <= 200)", not bad)
