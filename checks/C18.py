"""C18 — showbias reports per group the metric of exactly that group's rows, on one scale (R-ideal + strings; pandas stub)."""
from .common import CFGS, accepted

META = {
    "bounds": {"quick": {"numeric clauses": "frames of m <= 3 rows, scores symbolic reals, labels symbolic in {0,1} (pos_label 1), group membership symbolic over 2 fixed group names (every assignment a path), "
                                            "thresholds scalar / (1,) / (2,), metrics fnr/fpr/tpr/tnr/ppv/npv/topr/accuracy, normalize None/by_overall/by_min",
                         "bootstrap": "identity sampler and a deterministic 2-sample sampler x quantile/bc/bca (bca with the 2-sample sampler only un-normalised: the normalised variants are cubic and z3 does not decide them within 25 min); limits compared with utils.bootstrap_ci on the normalised replicates",
                         "labels": "two group columns with SYMBOLIC string values of length <= 2 over the alphabet {a, b, _}: 1 and 2 rows"},
               "thorough": {"numeric clauses": "m <= 3 as quick with 2 thresholds for all 8 metrics; m = 4 rows over 3 group names: all 8 metrics un-normalised, fnr and ppv also normalised", "labels": "length <= 3"}},
    "assumptions": ["R-ideal", "pandas replaced by the symx.pd contract stub (DataFrame columns as arrays, apply(axis=1), Index / MultiIndex.from_arrays); pandas itself, to_markdown and plotting are outside",
                    "dict/set look-ups on symbolic strings go through equality forks (constant hash): sound because every key of those containers is a symbolic string in these items",
                    "by_overall replicates may be divided by the original data's overall metric or by their own sample's (the property does not say which): the oracle accepts either"],
}
OPTS = {"quick": {"query_timeout_ms": 30000, "max_paths": 50000, "max_decisions": 20000}, "thorough": {"query_timeout_ms": 120000, "max_paths": 500000, "max_decisions": 50000}}
METRICS = ["fnr", "fpr", "tpr", "tnr", "ppv", "npv", "topr", "accuracy"]
NUM = {"fnr": ([1], [0, 1]), "fpr": ([2], [2, 3]), "tpr": ([0], [0, 1]), "tnr": ([3], [2, 3]), "ppv": ([0], [0, 2]), "npv": ([3], [3, 1]),
       "topr": ([0, 2], [0, 1, 2, 3]), "accuracy": ([0, 3], [0, 1, 2, 3])}
NAMES = ["g0", "g1", "g2"]


def items(tier):
    out = []
    for i, metric in enumerate(METRICS):
        sc, ec = CFGS[i % 4]
        for norm in (None, "by_overall", "by_min"):
            out.append({"kind": "values", "m": 2, "metric": metric, "sc": sc, "ec": ec, "normalize": norm, "thr": ["scalar", "(1,)", "(2,)"][i % 3], "G": 2})
    for norm in (None, "by_overall"):
        out.append({"kind": "values", "m": 2, "metric": "fnr", "sc": "neg", "ec": "pos", "normalize": norm, "thr": "(3,)", "G": 2})      # 3 thresholds: non-involutive orderings
    big = [("fnr", "(1,)"), ("ppv", "scalar"), ("accuracy", "(1,)")] if tier == "quick" else [(m_, "(2,)") for m_ in METRICS]
    for i, (metric, thr) in enumerate(big):
        sc, ec = CFGS[(i + 1) % 4]
        for norm in (None, "by_overall", "by_min"):
            out.append({"kind": "values", "m": 3, "metric": metric, "sc": sc, "ec": ec, "normalize": norm, "thr": thr, "G": 2})
            if tier == "thorough" and (norm is None or metric in ("fnr", "ppv")):      # ~6 min (un-normalised) to ~20 min per item on one core
                out.append({"kind": "values", "m": 4, "metric": metric, "sc": sc, "ec": ec, "normalize": norm, "thr": "(1,)", "G": 3})
    for method in ("quantile", "bc", "bca"):
        for norm in (None, "by_overall", "by_min"):
            for sampler in ("identity", "dropper"):
                if method == "bca" and sampler == "dropper" and norm is not None:
                    continue      # cubic in the symbols: z3 did not decide these within 25 min per item (measured) - outside both tiers
                # two thresholds in the thorough tier, except where bca meets by_min (nonlinear; occasional solver give-ups at (2,))
                one = tier == "quick" or (method == "bca" and (sampler == "dropper" or norm == "by_min"))
                out.append({"kind": "bootstrap", "method": method, "normalize": norm, "sampler": sampler, "thr": "(1,)" if one else "(2,)", "G": 2})
        out.append({"kind": "bootstrap", "method": method, "normalize": None, "sampler": "identity", "thr": "(2,)", "G": 1})      # one group, several thresholds
    L = 2 if tier == "quick" else 3
    out.append({"kind": "labels", "rows": 1, "maxlen": L, "probe": True})      # join character allowed: confirms the open finding
    out.append({"kind": "labels", "rows": 2, "maxlen": L, "probe": True})
    out.append({"kind": "labels", "rows": 1, "maxlen": L, "clean": True})      # values without the join character: must hold outright
    if tier == "thorough":      # two rows = four symbolic strings: z3's sequence solver needs 5-30 s per query and occasionally gives up under load
        out.append({"kind": "labels", "rows": 2, "maxlen": L - 1, "clean": True})
    out.append({"kind": "labels_enum", "rows": 2})      # two rows, values of length <= 1 over {a, 1}: all 81 assignments as paths (concrete strings per path)
    out.append({"kind": "labels_single", "maxlen": L})
    out.append({"kind": "errors"})
    # heaviest items first (the pool takes items in order): 4-row frames (normalised ones take 20-30 min), then normalised / bootstrap items
    out.sort(key=lambda it: -(1000 * (it.get("m", 0) >= 4) * (2 if it.get("normalize") else 1) + 10 * (it["kind"] == "bootstrap") * (3 if it.get("normalize") == "by_min" else 1)))
    return out


def run(h, kind, **p):
    return globals()["run_" + kind](h, **p)


def match_known(v, known):
    for k in known:
        reg = k.get("region", {})
        pr = v["params"]
        if reg.get("kind") and pr.get("kind") != reg["kind"]:
            continue
        if "normalize" in reg and pr.get("normalize") != reg["normalize"]:
            continue
        if reg.get("obligation_contains") and reg["obligation_contains"] not in v.get("obligation", ""):
            continue
        if reg.get("witness_contains_separator"):
            w = v.get("witness", {})
            if not any(isinstance(x, str) and "_" in x for x in w.values()):
                continue
        return k["id"]
    return None


def _pd(h):
    if h.mode == "sym":
        from symx import pd

        return pd
    import pandas as pd

    return pd


def _frame(h, m, G):
    """m rows; returns (frame, rows) with rows = [(score, label, group_name)], group membership concretised per path."""
    scores = h.reals("s", m)
    labels = h.ints("y", m, 0, 1)
    gidx = [h.concretize(g) for g in h.ints("g", m, 0, G - 1)]
    groups = [NAMES[g] for g in gidx]
    pd = _pd(h)
    df = pd.DataFrame({"grp": groups, "lab": h.array(labels), "sco": h.array(scores)})
    return df, list(zip(scores, labels, groups))


def _thr(h, kind):
    if kind == "scalar":
        t = h.real("t0")
        return t, [t]
    if kind == "(1,)":
        t = h.real("t0")
        return [t], [t]
    ts = h.reals("t", 3 if kind == "(3,)" else 2)
    return list(ts), ts


def _counts(h, rows, group, t, sc, ec):
    sel = [(s, y) for s, y, g in rows if group is None or g == group]
    tp = h.count([h.And(h.eq(y, 1), accepted(h, sc, ec, s, t)) for s, y in sel])
    fn = h.count([h.And(h.eq(y, 1), h.Not(accepted(h, sc, ec, s, t))) for s, y in sel])
    fp = h.count([h.And(h.eq(y, 0), accepted(h, sc, ec, s, t)) for s, y in sel])
    tn = h.count([h.And(h.eq(y, 0), h.Not(accepted(h, sc, ec, s, t))) for s, y in sel])
    return [tp, fn, fp, tn]


def _metric_is(h, v, cnt, metric):
    """value v equals the metric of the counted matrix cnt (NaN iff denominator 0)"""
    num, den = NUM[metric]
    n_, d_ = h.sum([cnt[i] for i in num]), h.sum([cnt[i] for i in den])
    if h.is_nan(v):
        return h.eq(d_, 0)
    return h.And(h.Not(h.eq(d_, 0)), h.eq(v * d_, n_))


def _table(h, frame_obj):
    """(row labels, column labels, cells by row) of a returned pandas-like frame"""
    idx = list(frame_obj.index.tolist())
    cols = list(frame_obj.columns.tolist())
    vals = h.cells(frame_obj.values)
    return idx, cols, [vals[i * len(cols):(i + 1) * len(cols)] for i in range(len(idx))]


def run_values(h, m, metric, sc, ec, normalize, thr, G):
    df, rows = _frame(h, m, G)
    targ, ts = _thr(h, thr)
    bf = h.sa.showbias(df, "grp", "lab", "sco", metric, normalize=normalize, score_class=sc, equal_class=ec, threshold=targ)
    idx, cols, tab = _table(h, bf.values)
    present = sorted({g for _, _, g in rows})
    h.check("one row per group present in the data, labelled with the group value, in sorted order", [str(i) for i in idx] == present)
    h.check("one column per threshold, labelled with the threshold", len(cols) == len(ts) and h.And([h.eq(c, t, 0) for c, t in zip(cols, ts)]))
    h.check("no intervals unless requested", bf.lower is None and bf.upper is None and bf.alpha is None)
    raw = {}
    for i, g in enumerate(present):
        for j, t in enumerate(ts):
            raw[(i, j)] = _counts(h, rows, g, t, sc, ec)
    for j, t in enumerate(ts):
        col = [tab[i][j] for i in range(len(present))]
        if normalize is None:
            for i in range(len(present)):
                h.check("entry = requested metric computed directly from that group's rows", _metric_is(h, col[i], raw[(i, j)], metric))
            continue
        # normalised: entry * divisor = raw metric (divisor != 0), raw otherwise.  Work with raw metric as num/den pairs.
        nums = [h.sum([raw[(i, j)][k] for k in NUM[metric][0]]) for i in range(len(present))]
        dens = [h.sum([raw[(i, j)][k] for k in NUM[metric][1]]) for i in range(len(present))]
        if any(h.decide(h.eq(d, 0)) for d in dens):
            continue       # a group without the relevant samples has a NaN metric: outside the normalisation clause
        if normalize == "by_overall":
            oc = _counts(h, rows, None, t, sc, ec)
            on, od = h.sum([oc[k] for k in NUM[metric][0]]), h.sum([oc[k] for k in NUM[metric][1]])
            if h.decide(h.eq(od, 0)):
                continue
            for i in range(len(present)):
                if h.is_nan(col[i]):
                    h.fail("by_overall: entry is NaN although every rate is defined")
                    continue
                # entry * (on/od) = nums/dens  unless on == 0 (then raw)
                h.check("by_overall: entry times the whole-dataset metric = group metric (raw metric if the divisor is 0)",
                        h.ite(h.eq(on, 0), h.eq(col[i] * dens[i], nums[i]), h.eq(col[i] * on * dens[i], nums[i] * od)))
        else:
            # divisor = smallest group metric: group k with nums[k]/dens[k] minimal
            for i in range(len(present)):
                if h.is_nan(col[i]):
                    h.fail("by_min: entry is NaN although every rate is defined")
                    continue
                alts = []
                for k in range(len(present)):
                    is_min = h.And([h.le(nums[k] * dens[l], nums[l] * dens[k]) for l in range(len(present))])
                    alts.append(h.And(is_min, h.ite(h.eq(nums[k], 0), h.eq(col[i] * dens[i], nums[i]), h.eq(col[i] * nums[k] * dens[i], nums[i] * dens[k]))))
                h.check("by_min: entry times the smallest group metric = group metric (raw metric if that divisor is 0)", h.Or(alts))
            some_min_is_one = h.Or([h.And(h.And([h.le(nums[k] * dens[l], nums[l] * dens[k]) for l in range(len(present))]), h.Or(h.eq(nums[k], 0), h.eq(col[k], 1))) for k in range(len(present))])
            h.check("by_min: the smallest row is 1 (unless the minimum is 0)", some_min_is_one)


def _gs_sampler(h, name):
    calls = [0]
    if name == "identity":
        return lambda src: src

    def drop(src):
        j = calls[0]
        calls[0] += 1
        n = len(src.neg)
        k = j % n
        keep = [i for i in range(n) if i != k] or [0]
        return h.sa.GroupScores(src.pos, src.neg[keep], pos_groups=src.pos_groups, neg_groups=src.neg_groups[keep], score_class=src.score_class,
                                equal_class=src.equal_class, group_names=src.groups, is_sorted=True)

    return drop


def run_bootstrap(h, method, normalize, sampler, thr, G):
    """fixed small layout: each group has positives and negatives so that rates are defined; scores symbolic."""
    pd = _pd(h)
    layout = [("g0", 1), ("g0", 0), ("g0", 0), ("g1", 1), ("g1", 0), ("g1", 0)] if G == 2 else [("g0", 1), ("g0", 0), ("g0", 0)]
    scores = h.reals("s", len(layout))
    df = pd.DataFrame({"grp": [g for g, _ in layout], "lab": [y for _, y in layout], "sco": h.array(scores)})
    rows = [(s, y, g) for s, (g, y) in zip(scores, layout)]
    targ, ts = _thr(h, thr)
    alpha = h.const("1/5")
    cfg = h.sa.BootstrapConfig(nb_samples=2, sampling_method=_gs_sampler(h, sampler), bootstrap_method=method)
    metric = "fpr"
    bf = h.sa.showbias(df, "grp", "lab", "sco", metric, normalize=normalize, bootstrap_ci=True, bootstrap_config=cfg, alpha=alpha, threshold=targ)
    idx, cols, val = _table(h, bf.values)
    _, lc, lo = _table(h, bf.lower)
    ui, uc, up = _table(h, bf.upper)
    present = sorted({g for g, _ in layout})
    h.check("values / lower / upper carry the same row and column labels",
            [str(i) for i in idx] == present and [str(i) for i in bf.lower.index.tolist()] == present and [str(i) for i in ui] == present
            and len(cols) == len(lc) == len(uc) == len(ts) and h.And([h.And(h.eq(a, t, 0), h.eq(b, t, 0), h.eq(c, t, 0)) for a, b, c, t in zip(cols, lc, uc, ts)]))
    h.check("alpha reported", h.eq(bf.alpha, alpha, 0))
    G_, T_ = len(present), len(ts)
    nan_free = not any(h.is_nan(v) for r in lo + up + val for v in r)
    h.check("defined rates give NaN-free values and limits", nan_free)
    if not nan_free:
        return
    if method != "bca" or sampler == "identity":
        # bca: ordering needs the pole condition |a(z0+z_alpha)| < 1 (C13), a numeric fact about Phi that the
        # uninterpreted model cannot supply for arbitrary replicates; checked for quantile / bc and for degenerate bca
        h.check("lower <= upper", h.And([h.le(lo[i][j], up[i][j]) for i in range(G_) for j in range(T_)]))
    # replicates of the raw group metric, produced by the same sampler (fresh instance: same deterministic sequence)
    so = h.sa.GroupScores.from_labels(labels=h.array([y for _, y in layout]), scores=h.array(scores), groups=h.array([g for g, _ in layout]))
    smp = _gs_sampler(h, sampler)
    reps = [h.np.asarray(getattr(smp(so).group_cm(threshold=h.array(ts)), metric)()) for _ in range(2)]      # each (G, T)
    rawv = h.np.asarray(getattr(so.group_cm(threshold=h.array(ts)), metric)())
    overall = h.np.asarray(getattr(so.cm(threshold=h.array(ts)), metric)())

    def normed(arr, own_overall):
        if normalize is None:
            return arr
        if normalize == "by_overall":
            return h.np.asarray([[h.ite(h.eq(own_overall[j], 0), arr[i][j], arr[i][j] / own_overall[j]) if not h.decide(h.eq(own_overall[j], 0)) else arr[i][j] for j in range(T_)] for i in range(G_)])
        mins = [h.min([arr[i][j] for i in range(G_)]) for j in range(T_)]
        return h.np.asarray([[arr[i][j] if h.decide(h.eq(mins[j], 0)) else arr[i][j] / mins[j] for j in range(T_)] for i in range(G_)])

    theta = h.np.stack([normed(r, overall) for r in reps], axis=0)
    want = h.sa.utils.bootstrap_ci(theta=theta, theta_hat=h.np.asarray(val), alpha=alpha, method=method)      # (G, T, 2)
    w = h.cells(want)
    ok = [h.And(h.eq(lo[i][j], w[(i * T_ + j) * 2]), h.eq(up[i][j], w[(i * T_ + j) * 2 + 1])) for i in range(G_) for j in range(T_)]
    h.check("intervals are computed for the same normalised quantity as the reported value (documented CI formula on normalised replicates, reported value as estimate)", h.And(ok))


def run_labels(h, rows, maxlen, clean=False, probe=False):
    """two group columns with symbolic string values: each row of the result is labelled with the value tuple of exactly its rows"""
    pd = _pd(h)
    alpha = ["a", "b"] if clean else ["a", "b", "_"]
    A = [h.str(f"a{i}", maxlen, alpha) for i in range(rows)]
    B = [h.str(f"b{i}", maxlen, alpha) for i in range(rows)]
    scores = [h.const("1/4"), h.const("3/4")][:rows]
    labels = [1] * rows
    df = pd.DataFrame({"ga": A, "gb": B, "lab": labels, "sco": scores})
    if rows == 2:
        h.assume(h.Or(h.Not(h.eq(A[0], A[1])), h.Not(h.eq(B[0], B[1]))))      # two different value tuples
    bf = h.sa.showbias(df, ["ga", "gb"], "lab", "sco", "fnr", threshold=[h.const("1/2")])
    idx, cols, tab = _table(h, bf.values)
    h.check("one row per distinct group value tuple", len(idx) == rows)
    if len(idx) != rows:
        return
    # score 1/4 < 1/2 is rejected (fnr 1), score 3/4 accepted (fnr 0): the entry identifies which data row a result row was computed from
    for i in range(rows):
        src = [k for k in range(rows) if h.decide(h.eq(tab[i][0], 1 if k == 0 else 0))]
        h.check("each result row is computed from exactly one data row here", len(src) == 1)
        if len(src) == 1:
            k = src[0]
            lab = idx[i]
            h.check("row label = the group value tuple of the rows it was computed from",
                    isinstance(lab, tuple) and len(lab) == 2 and h.And(h.eq(lab[0], A[k]), h.eq(lab[1], B[k])))


def run_labels_enum(h, rows):
    """two group columns, values drawn from {"", "a", "1"} by symbolic selectors that are concretised (one path per
    assignment): distinct value tuples give distinct rows, each labelled with the tuple of the rows it was computed from.
    ('1' sorts below the join character, 'a' above it: joined-key order and tuple order differ.)"""
    pd = _pd(h)
    vals = ["", "a", "1"]
    A = [vals[h.concretize(k)] for k in h.ints("ka", rows, 0, 2)]
    B = [vals[h.concretize(k)] for k in h.ints("kb", rows, 0, 2)]
    if len({(a, b) for a, b in zip(A, B)}) != rows:
        return
    scores = [h.const("1/4"), h.const("3/4")][:rows]
    df = pd.DataFrame({"ga": A, "gb": B, "lab": [1] * rows, "sco": scores})
    bf = h.sa.showbias(df, ["ga", "gb"], "lab", "sco", "fnr", threshold=[h.const("1/2")])
    idx, cols, tab = _table(h, bf.values)
    h.check("one row per distinct group value tuple", len(idx) == rows)
    for i in range(len(idx)):
        k = 0 if h.decide(h.eq(tab[i][0], 1)) else 1      # fnr 1 <=> computed from the row with score 1/4
        lab = tuple(str(x) for x in idx[i]) if isinstance(idx[i], tuple) else idx[i]
        h.check("row label = the group value tuple of the rows it was computed from", lab == (A[k], B[k]))


def run_labels_single(h, maxlen):
    pd = _pd(h)
    g = [h.str("g0", maxlen, ["a", "b", "_"]), h.str("g1", maxlen, ["a", "b", "_"])]
    h.assume(h.Not(h.eq(g[0], g[1])))
    df = pd.DataFrame({"grp": g, "lab": [1, 1], "sco": [h.const("1/4"), h.const("3/4")]})
    bf = h.sa.showbias(df, "grp", "lab", "sco", "fnr", threshold=[h.const("1/2")])
    idx, cols, tab = _table(h, bf.values)
    h.check("single group column: one row per distinct value", len(idx) == 2)
    for i in range(len(idx)):
        k = 0 if h.decide(h.eq(tab[i][0], 1)) else 1
        h.check("single group column: row label = the group value of its rows (any characters)", h.eq(idx[i], g[k]))


def run_errors(h):
    pd = _pd(h)
    df = pd.DataFrame({"grp": ["a", "b"], "lab": [1, 0], "sco": [h.const("1/4"), h.const("3/4")]})
    for kw, exc in (({"normalize": "by_max"}, ValueError),):
        try:
            h.sa.showbias(df, "grp", "lab", "sco", "fnr", threshold=[h.const("1/2")], **kw)
            h.fail("unsupported normalize must raise ValueError")
        except exc:
            h.check("unsupported normalize raises ValueError", True)
    for args in (("nope", "lab", "sco"), ("grp", "nope", "sco"), ("grp", "lab", "nope")):
        try:
            h.sa.showbias(df, *args, "fnr", threshold=[h.const("1/2")])
            h.fail("unknown column must be rejected")
        except AssertionError:
            h.check("unknown column rejected", True)
    try:
        h.sa.showbias(df, 3, "lab", "sco", "fnr", threshold=[h.const("1/2")])
        h.fail("group_columns of an unsupported type must be rejected")
    except (TypeError, AssertionError):
        h.check("group_columns of an unsupported type rejected", True)
