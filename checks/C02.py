"""C02 — threshold setting round-trips within one sample; lower/higher/linear are coherent (R-ideal)."""
from .common import CFGS
from .thr import METRICS, THR_ALIAS, achievable, direction, flip, numerator, relevant

META = {
    "bounds": {
        "quick": {"relevant class": "1..3 scored samples, sorted, ties allowed (topr/tonr: P+N <= 4)", "easy counts": "symbolic Int in [0,6] (round trip), {(0,0),(1,2)} (method coherence)",
                  "target r": "ANY real (incl. r<0, r>1, on/off grid)", "methods": "linear/lower/higher", "configs": "all 4 x 6 metrics"},
        "thorough": {"relevant class": "1..6 (topr/tonr: P+N <= 6)", "easy counts": "symbolic Int in [0,50]; {(0,0),(1,2),(3,0)}", "target r": "any real",
                     "methods": "all", "configs": "all"},
    },
    "assumptions": ["R-ideal: exact real arithmetic — the 'few ulp' slack of the property is not needed and not modelled",
                    "inputs are handed over sorted (is_sorted=False still runs the constructor sort; L-sort lemma is C01's)",
                    "nextafter = one-step functions with gap axioms against every input score"],
}
OPTS = {"quick": {"query_timeout_ms": 30000, "max_paths": 5000}, "thorough": {"query_timeout_ms": 120000, "max_paths": 50000}}


def sizes(metric, tier):
    if METRICS[metric][0] == "all":
        return [(1, 0), (1, 1), (2, 1), (2, 2)] if tier == "quick" else [(1, 0), (0, 2), (1, 1), (2, 1), (2, 2), (3, 2), (3, 3)]
    ns = [1, 2, 3] if tier == "quick" else [1, 2, 3, 4, 5, 6]
    return [((n, 1) if METRICS[metric][0] == "pos" else (1, n)) for n in ns]


def items(tier):
    out = []
    K = 6 if tier == "quick" else 50
    easy_sets = [(0, 0), (1, 2)] if tier == "quick" else [(0, 0), (1, 2), (3, 0)]
    for metric in METRICS:
        for sc, ec in CFGS:
            szs = sizes(metric, tier)
            for P, N in szs:
                out.append({"kind": "roundtrip", "metric": metric, "sc": sc, "ec": ec, "P": P, "N": N, "K": K})
            for P, N in szs[1:] if tier == "quick" else szs:
                for kp, kn in easy_sets:
                    out.append({"kind": "methods", "metric": metric, "sc": sc, "ec": ec, "P": P, "N": N, "kp": kp, "kn": kn})
            P, N = szs[-1] if tier == "quick" else szs[-2]
            out.append({"kind": "monotone", "metric": metric, "sc": sc, "ec": ec, "P": P, "N": N, "kp": 1, "kn": 2})
            out.append({"kind": "alias", "metric": metric, "sc": sc, "ec": ec, "P": szs[1][0], "N": szs[1][1]})
            out.append({"kind": "reuse", "metric": metric, "sc": sc, "ec": ec})
        if METRICS[metric][0] == "all":
            for sc, ec in CFGS:
                for ints in ("neg", "pos"):
                    out.append({"kind": "mixed", "metric": metric, "sc": sc, "ec": ec, "ints": ints})
    return out


def _scores(h, P, N, strict=False):
    pos, neg = h.reals("p", P), h.reals("n", N)
    for a in (pos, neg):
        for i in range(len(a) - 1):
            h.assume(a[i] < a[i + 1] if strict else a[i] <= a[i + 1])
    return pos, neg


def run(h, kind, **p):
    return {"roundtrip": run_roundtrip, "methods": run_methods, "monotone": run_monotone, "alias": run_alias, "reuse": run_reuse, "mixed": run_mixed}[kind](h, **p)


def run_reuse(h, metric, sc, ec):
    """one caller-owned float target ARRAY handed to the three methods in turn on an object WITHOUT easy samples
    (rescaling is the identity there): results equal those on fresh scalars, the array is left untouched"""
    P, N = (2, 1) if METRICS[metric][0] != "neg" else (1, 2)
    pos, neg = _scores(h, P, N)
    h.policy(gather="ite", sort="ite")
    S = h.sa.Scores(h.array(pos), h.array(neg), score_class=sc, equal_class=ec)
    r = h.real("r", float_atom=False)
    R = h.np.asarray([r], dtype=float)
    snap = h.snapshot(R)
    f = getattr(S, f"threshold_at_{metric}")
    for method in ("lower", "higher", "linear", "linear"):
        got = h.cells(f(R, method=method))
        want = f(r, method=method)
        h.check(f"same target array reused ({method}): result equals the scalar call", len(got) == 1 and h.eq(got[0], want, 0))
        h.check(f"same target array reused ({method}): caller's array untouched", h.unchanged(snap, R))


def run_mixed(h, metric, sc, ec, ints):
    """pooled metrics with integer scores in one class and float scores in the other: round trip within one sample"""
    mk = lambda pre, isint: (h.ints(pre, 2, -3, 3) if isint else h.reals(pre, 2))
    pos, neg = mk("p", ints == "pos"), mk("n", ints == "neg")
    for a in (pos, neg):
        h.assume(a[0] <= a[1])
    h.policy(gather="fork", sort="fork")
    S = h.sa.Scores(h.array(pos), h.array(neg), nb_easy_pos=1, nb_easy_neg=0, score_class=sc, equal_class=ec)
    r = h.real("r", float_atom=False)
    t = getattr(S, f"threshold_at_{metric}")(r)
    a, M = numerator(h, metric, pos, neg, 1, 0, t, sc, ec)
    b, _ = numerator(h, metric, pos, neg, 1, 0, t, sc, flip(ec))
    lo, hi = achievable(metric, 2, 2, 1, 0)
    rc = _clip(h, r * M, lo, hi)
    h.check("mixed int/float score dtypes: round trip within one sample", h.And(h.le(h.min([a, b]) - 1, rc), h.le(rc, h.max([a, b]) + 1)))
    for method in ("lower", "higher"):
        tm = getattr(S, f"threshold_at_{metric}")(r, method=method)
        srt = h.cells(h.np.sort(h.array([x * 1 for x in pos + neg]).astype(float)))
        h.check(f"mixed dtypes: '{method}' returns an actual (untruncated) sample score or a sentinel",
                h.Or([h.eq(tm, s, 0) for s in pos + neg] + [h.eq(tm, h.np.nextafter(srt[0], -float("inf")), 0), h.eq(tm, h.np.nextafter(srt[-1], float("inf")), 0)]))


def _mk(h, pos, neg, kp, kn, sc, ec, metric):
    h.policy(gather="fork", sort="fork" if METRICS[metric][0] == "all" else "ite")
    return h.sa.Scores(h.array(pos), h.array(neg), nb_easy_pos=kp, nb_easy_neg=kn, score_class=sc, equal_class=ec)


def _clip(h, x, lo, hi):
    return h.ite(x < lo, lo, h.ite(x > hi, hi, x))


def run_roundtrip(h, metric, sc, ec, P, N, K):
    pos, neg = _scores(h, P, N)
    kp, kn = h.int("kp", 0, K), h.int("kn", 0, K)
    S = _mk(h, pos, neg, kp, kn, sc, ec, metric)
    r = h.real("r", float_atom=False)
    t = getattr(S, f"threshold_at_{metric}")(r)
    h.check("scalar target gives a scalar threshold", h.shape(t) == () and h.np.isscalar(t))
    # metric as computed by the same object, at the threshold and (oracle) just below / just above it
    cm = h.cells(S.cm(t).matrix)
    own = {"tpr": cm[0], "fnr": cm[1], "fpr": cm[2], "tnr": cm[3], "topr": cm[0] + cm[2], "tonr": cm[1] + cm[3]}[metric]
    a, M = numerator(h, metric, pos, neg, kp, kn, t, sc, ec)
    b, _ = numerator(h, metric, pos, neg, kp, kn, t, sc, flip(ec))
    h.check("object's own metric at the threshold = counting", h.eq(own, a))
    lo, hi = achievable(metric, P, N, kp, kn)
    rc = _clip(h, r * M, lo, hi)      # target clipped to the achievable range, in sample units
    h.check("metric just below/above the returned threshold brackets the clipped target within one sample",
            h.And(h.le(h.min([a, b]) - 1, rc), h.le(rc, h.max([a, b]) + 1)))
    # tie-free at the threshold => the metric itself is within one sample
    h.check("no tie at the threshold: |metric(threshold) - clipped target| <= 1/M",
            h.Implies(h.eq(a, b), h.And(h.le(a - 1, rc), h.le(rc, a + 1))))


def run_methods(h, metric, sc, ec, P, N, kp, kn):
    pos, neg = _scores(h, P, N)
    S = _mk(h, pos, neg, kp, kn, sc, ec, metric)
    r = h.real("r", float_atom=False)
    f = getattr(S, f"threshold_at_{metric}")
    t_lin, t_lo, t_hi = f(r), f(r, method="lower"), f(r, method="higher")
    rel = relevant(metric, pos, neg)
    srt = h.cells(h.np.sort(h.array(rel)))
    below = h.np.nextafter(srt[0], -float("inf"))
    above = h.np.nextafter(srt[-1], float("inf"))
    for nm, t in (("lower", t_lo), ("higher", t_hi)):
        h.check(f"'{nm}' returns an actual sample score or the one-step sentinel outside the range",
                h.Or([h.eq(t, s, 0) for s in rel] + [h.eq(t, below, 0), h.eq(t, above, 0)]))
    a_lo, M = numerator(h, metric, pos, neg, kp, kn, t_lo, sc, ec)
    a_hi, _ = numerator(h, metric, pos, neg, kp, kn, t_hi, sc, ec)
    h.check("metric(lower) <= metric(higher)", h.le(a_lo, a_hi))
    h.check("'linear' lies between 'lower' and 'higher'",
            h.And(h.le(h.min([t_lo, t_hi]), t_lin), h.le(t_lin, h.max([t_lo, t_hi]))))
    x = r * M
    phi = x - h.np.floor(x)
    h.check("'linear' = convex combination weighted by the fractional part of r*N", h.eq(t_lin, (1 - phi) * t_lo + phi * t_hi))
    try:
        f(r, method="nearest")
        h.fail("unknown method must raise ValueError")
    except ValueError:
        h.check("unknown method raises ValueError", True)


def run_monotone(h, metric, sc, ec, P, N, kp, kn):
    pos, neg = _scores(h, P, N)
    S = _mk(h, pos, neg, kp, kn, sc, ec, metric)
    r1, r2 = h.real("r", float_atom=False), h.real("r2", float_atom=False)
    h.assume(r1 <= r2)
    d = direction(metric, sc)
    for method in ("linear", "lower", "higher"):
        f = getattr(S, f"threshold_at_{metric}")
        t1, t2 = f(r1, method=method), f(r2, method=method)
        h.check(f"threshold monotone in the target ({method})", h.le(0, d * (t2 - t1)))


def run_alias(h, metric, sc, ec, P, N):
    pos, neg = _scores(h, P, N)
    S = _mk(h, pos, neg, 1, 1, sc, ec, metric)
    r = h.real("r", float_atom=False)
    for method in ("linear", "lower"):
        a = getattr(S, f"threshold_at_{metric}")(r, method=method)
        b = getattr(S, THR_ALIAS[metric])(r, method=method)
        h.check(f"alias {THR_ALIAS[metric]} returns the identical threshold", h.eq(a, b, 0))
