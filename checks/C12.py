"""C12 — group labels stay attached to their scores; groups partition the data (R-exact; RNG draws are symbols)."""
from .common import CFGS, accepted

META = {
    "bounds": {"quick": {"data": "P,N in 1..2 unsorted symbolic scores with ties; group labels symbolic in {0..G-1}, G <= 2 (every label assignment is a path: groups may lack a class)",
                         "sampling": "replacement / single_pass / dynamic x None / by_label / by_group; every RNG result a symbol; drawn sizes <= 4, multiplicities <= 2"},
               "thorough": {"data": "P,N in 1..3, G <= 3"}},
    "assumptions": ["R-exact", "argsort is modelled as a stable ITE network; obligations are counting formulations, so they do not depend on the order of ties",
                    "RNG contracts as in C11"],
}
OPTS = {"quick": {"query_timeout_ms": 30000, "max_paths": 50000, "max_decisions": 5000}, "thorough": {"query_timeout_ms": 120000, "max_paths": 500000, "max_decisions": 10000}}


def items(tier):
    out = []
    szs = [(1, 1, 2), (2, 1, 2), (2, 2, 2)] if tier == "quick" else [(1, 1, 2), (2, 1, 2), (2, 2, 2), (2, 2, 3), (3, 2, 2), (3, 3, 2)]
    for i, (P, N, G) in enumerate(szs):
        for sc, ec in (CFGS if tier == "thorough" else [CFGS[i % 4], CFGS[(i + 2) % 4]]):
            out.append({"kind": "structure", "sc": sc, "ec": ec, "P": P, "N": N, "G": G})
    for P, N, G in (szs[:2] if tier == "quick" else szs[:4]):
        for method in ("replacement", "single_pass"):
            for strat in (None, "by_label", "by_group"):
                out.append({"kind": "sampling", "P": P, "N": N, "G": G, "method": method, "strat": strat})
    # by_group needs every group to hold both classes for single_pass: at least 2+2 samples over 2 groups
    for method in ("replacement", "single_pass"):
        out.append({"kind": "sampling", "P": 2, "N": 2, "G": 2, "method": method, "strat": "by_group"})
    for sc, ec in CFGS[:2]:
        out.append({"kind": "names", "sc": sc, "ec": ec, "P": 2, "N": 2})
    out.append({"kind": "dynamic"})
    out.append({"kind": "errors"})
    return out


def run(h, kind, **p):
    return globals()["run_" + kind](h, **p)


def _data(h, P, N, G):
    pos, neg = h.reals("p", P), h.reals("n", N)
    pg, ng = h.ints("pg", P, 0, G - 1), h.ints("ng", N, 0, G - 1)
    return pos, neg, pg, ng


def _pairs_equal(h, scores_a, labels_a, scores_b, labels_b):
    """multisets of (score, label) pairs are equal (counting formulation)."""
    if len(scores_a) != len(scores_b):
        return False
    conds = []
    for s, g in zip(scores_a, labels_a):
        ca = h.count([h.And(h.eq(x, s, 0), h.eq(y, g)) for x, y in zip(scores_a, labels_a)])
        cb = h.count([h.And(h.eq(x, s, 0), h.eq(y, g)) for x, y in zip(scores_b, labels_b)])
        conds.append(h.eq(ca, cb))
    return h.And(conds)


def _subset_pairs(h, scores_a, labels_a, scores_b, labels_b):
    """every pair of a occurs in b"""
    return h.And([h.Or([h.And(h.eq(x, s, 0), h.eq(y, g)) for x, y in zip(scores_b, labels_b)]) for s, g in zip(scores_a, labels_a)])


def _group_counts(h, pos, neg, pg, ng, g, t, sc, ec):
    tp = h.count([h.And(h.eq(l, g), accepted(h, sc, ec, s, t)) for s, l in zip(pos, pg)])
    fn = h.count([h.And(h.eq(l, g), h.Not(accepted(h, sc, ec, s, t))) for s, l in zip(pos, pg)])
    fp = h.count([h.And(h.eq(l, g), accepted(h, sc, ec, s, t)) for s, l in zip(neg, ng)])
    tn = h.count([h.And(h.eq(l, g), h.Not(accepted(h, sc, ec, s, t))) for s, l in zip(neg, ng)])
    return tp, fn, fp, tn


def _check_object(h, gs, pos, neg, pg, ng, sc, ec, t, tag=""):
    sp, sn = h.cells(gs.pos), h.cells(gs.neg)
    spg, sng = h.cells(gs.pos_groups), h.cells(gs.neg_groups)
    h.check(tag + "stored scores ascending", h.And([h.le(a[i], a[i + 1], 0) for a in (sp, sn) for i in range(len(a) - 1)]))
    h.check(tag + "every score keeps the group label it was given (pair multisets equal)",
            h.And(_pairs_equal(h, pos, pg, sp, spg), _pairs_equal(h, neg, ng, sn, sng)))
    groups = [int(g) for g in h.cells(gs.groups)] if h.mode == "conc" else [h.concretize(g) for g in h.cells(gs.groups)]
    present = sorted({int(x) if h.mode == "conc" else h.concretize(x) for x in pg + ng})
    h.check(tag + "groups = sorted distinct labels", groups == present)
    gcm = h.cells(gs.group_cm(t).matrix)
    tot = [0, 0, 0, 0]
    for j, g in enumerate(groups):
        sub = gs[g]
        sub_p, sub_n = h.cells(sub.pos), h.cells(sub.neg)
        h.check(tag + "indexing by a group yields exactly the scores carrying that label",
                h.And([h.eq(h.count([h.eq(x, s, 0) for x in sub_p]), h.count([h.And(h.eq(y, s, 0), h.eq(l, g)) for y, l in zip(pos, pg)])) for s in pos] +
                      [h.eq(h.count([h.eq(x, s, 0) for x in sub_n]), h.count([h.And(h.eq(y, s, 0), h.eq(l, g)) for y, l in zip(neg, ng)])) for s in neg] +
                      [h.eq(len(sub_p), h.count([h.eq(l, g) for l in pg])), h.eq(len(sub_n), h.count([h.eq(l, g) for l in ng]))]))
        want = _group_counts(h, pos, neg, pg, ng, g, t, sc, ec)
        got = gcm[4 * j:4 * j + 4]
        h.check(tag + "per-group confusion matrix = counting on the rows of that group", h.And([h.eq(a, b) for a, b in zip(got, want)]))
        own = h.cells(sub.cm(t).matrix)
        h.check(tag + "group_cm[g] = gs[g].cm", h.And([h.eq(a, b) for a, b in zip(got, own)]))
        tot = [a + b for a, b in zip(tot, got)]
    whole = h.cells(gs.cm(t).matrix)
    h.check(tag + "group matrices sum to the overall confusion matrix", h.And([h.eq(a, b) for a, b in zip(tot, whole)]))
    return groups


def run_structure(h, sc, ec, P, N, G):
    pos, neg, pg, ng = _data(h, P, N, G)
    t = h.real("t")
    gs = h.sa.GroupScores(h.array(pos), h.array(neg), pos_groups=h.array(pg), neg_groups=h.array(ng), score_class=sc, equal_class=ec)
    groups = _check_object(h, gs, pos, neg, pg, ng, sc, ec, t)
    # from_labels
    labels = [1] * P + [0] * N
    fl = h.sa.GroupScores.from_labels(h.array(labels), h.array(pos + neg), h.array(pg + ng), score_class=sc, equal_class=ec)
    h.check("from_labels: same pairs", h.And(_pairs_equal(h, pos, pg, h.cells(fl.pos), h.cells(fl.pos_groups)), _pairs_equal(h, neg, ng, h.cells(fl.neg), h.cells(fl.neg_groups))))
    # per-group queries on the original first (fills its cache), then swap: the swapped object must answer for itself
    first = h.cells(gs.group_fpr(t))
    sw = gs.swap()
    osc, oec = ("neg" if sc == "pos" else "pos"), ("neg" if ec == "pos" else "pos")
    _check_object(h, sw, neg, pos, ng, pg, osc, oec, t, tag="[swap] ")
    a, b = h.cells(gs.group_fpr(t)), h.cells(sw.group_fnr(t))
    h.check("group FPR of the original = group FNR of the swapped object (NaN together)",
            h.And([(h.is_nan(x) and h.is_nan(y)) if (h.is_nan(x) or h.is_nan(y)) else h.eq(x, y) for x, y in zip(a, b)]))
    _check_object(h, gs, pos, neg, pg, ng, sc, ec, t, tag="[original after swap] ")
    # groupwise(metric) = metric group by group
    gw = h.sa.groupwise("fnr")(gs, threshold=t)
    ref = [gs[g].fnr(t) for g in groups]
    gwc = h.cells(gw)
    h.check("groupwise(metric) equals the metric applied group by group",
            len(gwc) == len(ref) and h.And([(h.is_nan(x) and h.is_nan(y)) if (h.is_nan(x) or h.is_nan(y)) else h.eq(x, y, 0) for x, y in zip(gwc, ref)]))
    gw2 = h.cells(h.sa.groupwise(lambda s, threshold: s.cm(threshold).matrix)(gs, threshold=t))
    h.check("groupwise(callable) stacks per-group results in group order", h.And([h.eq(x, y, 0) for x, y in zip(gw2, h.cells(gs.group_cm(t).matrix))]))
    al = h.cells(gs.group_tar(t)), h.cells(gs.group_tpr(t))
    h.check("group alias", h.And([(h.is_nan(x) and h.is_nan(y)) if (h.is_nan(x) or h.is_nan(y)) else h.eq(x, y, 0) for x, y in zip(*al)]))


def run_names(h, sc, ec, P, N):
    """explicitly provided group names are used as is (not sorted): every per-group result follows THAT order."""
    pos, neg, pg, ng = _data(h, P, N, 3)
    names = [2, 0, 1]
    t = h.real("t")
    gs = h.sa.GroupScores(h.array(pos), h.array(neg), pos_groups=h.array(pg), neg_groups=h.array(ng), score_class=sc, equal_class=ec, group_names=names)
    h.check("explicit group names kept in the given order", [int(str(x)) if h.mode == "sym" else int(x) for x in h.cells(gs.groups)] == names)
    gcm = h.cells(gs.group_cm(t).matrix)
    for j, g in enumerate(names):
        want = _group_counts(h, pos, neg, pg, ng, g, t, sc, ec)
        h.check("explicit names: per-group matrix j belongs to group_names[j]", h.And([h.eq(a, b) for a, b in zip(gcm[4 * j:4 * j + 4], want)]))
        sub = gs[g]
        h.check("explicit names: indexing by a group yields that group's scores",
                h.And(h.eq(len(h.cells(sub.pos)), h.count([h.eq(l, g) for l in pg])), h.eq(len(h.cells(sub.neg)), h.count([h.eq(l, g) for l in ng]))))
    B = gs.bootstrap_sample(h.sa.BootstrapConfig(sampling_method="replacement", stratified_sampling="by_label"))
    h.check("explicit names survive sampling in order", [str(x) for x in h.cells(B.groups)] == [str(x) for x in h.cells(gs.groups)])


def run_sampling(h, P, N, G, method, strat):
    pos, neg, pg, ng = _data(h, P, N, G)
    for a in (pos, neg):       # sorted source keeps the term sizes down; construction from unsorted input is run_structure's job
        for i in range(len(a) - 1):
            h.assume(a[i] <= a[i + 1])
    gs = h.sa.GroupScores(h.array(pos), h.array(neg), pos_groups=h.array(pg), neg_groups=h.array(ng), score_class="neg", equal_class="pos")
    h.policy(mult_cap=2)
    cfg = h.sa.BootstrapConfig(sampling_method=method, stratified_sampling=strat)
    try:
        B = gs.bootstrap_sample(cfg)
    except ZeroDivisionError:
        # single-pass sampling of a group without positives (or negatives) divides by the class size
        h.check("ZeroDivisionError only for single_pass by_group with a group lacking a class", method == "single_pass" and strat == "by_group")
        return
    except ValueError:
        h.check("ValueError only when sampling from an empty stratum", strat == "by_group")
        return
    bp, bn, bpg, bng = h.cells(B.pos), h.cells(B.neg), h.cells(B.pos_groups), h.cells(B.neg_groups)
    h.check("sample (score, label) pairs are source pairs of the same class", h.And(_subset_pairs(h, bp, bpg, pos, pg), _subset_pairs(h, bn, bng, neg, ng)))
    h.check("label arrays stay aligned in length", len(bp) == len(bpg) and len(bn) == len(bng))
    h.check("sample scores ascending", h.And([h.le(a[i], a[i + 1], 0) for a in (bp, bn) for i in range(len(a) - 1)]))
    h.check("group names and their order are preserved in the sample", [str(x) for x in h.cells(B.groups)] == [str(x) for x in h.cells(gs.groups)])
    h.check("configuration preserved", B.score_class == gs.score_class and B.equal_class == gs.equal_class)
    t = h.real("t_probe")
    got = h.cells(B.cm(t).matrix)
    tp = h.count([accepted(h, "neg", "pos", s, t) for s in bp])
    fp = h.count([accepted(h, "neg", "pos", s, t) for s in bn])
    h.check("metrics of the sample equal direct counting", h.And(h.eq(got[0], tp), h.eq(got[1], len(bp) - tp), h.eq(got[2], fp), h.eq(got[3], len(bn) - fp)))
    groups_b = [h.concretize(g) if h.mode == "sym" else int(g) for g in h.cells(B.groups)]
    gcm = h.cells(B.group_cm(t).matrix)
    for j, g in enumerate(groups_b):
        want = _group_counts(h, bp, bn, bpg, bng, g, t, "neg", "pos")
        h.check("per-group matrices of the sample = counting on the sample's rows of that group, under the sample's own decision rule",
                h.And([h.eq(a, b) for a, b in zip(gcm[4 * j:4 * j + 4], want)]))
    if strat == "by_label":
        if method == "replacement":
            h.check("by_label keeps the class sizes", len(bp) == P and len(bn) == N)
    if strat == "by_group" and method == "replacement":
        groups = sorted({h.concretize(x) for x in pg + ng})
        for g in groups:
            src = h.count([h.eq(l, g) for l in pg + ng])
            smp = h.count([h.eq(l, g) for l in bpg + bng])
            h.check("by_group keeps each group's sample count", h.eq(src, smp))
    if strat is None and method == "replacement":
        h.check("replacement keeps the total sample count", len(bp) + len(bn) == P + N)


def _check_sample(h, B, pos, neg, pg, ng, tag=""):
    """a bootstrap sample of a (neg, pos) GroupScores: pairs are source pairs, order, overall and per-group matrices = counting"""
    bp, bn, bpg, bng = h.cells(B.pos), h.cells(B.neg), h.cells(B.pos_groups), h.cells(B.neg_groups)
    h.check(tag + "sample (score, label) pairs are source pairs of the same class", h.And(_subset_pairs(h, bp, bpg, pos, pg), _subset_pairs(h, bn, bng, neg, ng)))
    h.check(tag + "sample scores ascending", h.And([h.le(a[i], a[i + 1], 0) for a in (bp, bn) for i in range(len(a) - 1)]))
    t = h.real("t_probe")
    got = h.cells(B.cm(t).matrix)
    tp = h.count([accepted(h, "neg", "pos", s, t) for s in bp])
    fp = h.count([accepted(h, "neg", "pos", s, t) for s in bn])
    h.check(tag + "metrics of the sample equal direct counting", h.And(h.eq(got[0], tp), h.eq(got[1], len(bp) - tp), h.eq(got[2], fp), h.eq(got[3], len(bn) - fp)))
    groups = [h.concretize(g) if h.mode == "sym" else int(g) for g in h.cells(B.groups)]
    gcm = h.cells(B.group_cm(t).matrix)
    for j, g in enumerate(groups):
        want = _group_counts(h, bp, bn, bpg, bng, g, t, "neg", "pos")
        h.check(tag + "per-group matrices of the SAMPLE = counting on the sample's rows of that group (sample's own decision rule)",
                h.And([h.eq(a, b) for a, b in zip(gcm[4 * j:4 * j + 4], want)]))


def run_dynamic(h):
    mod = h.sa.group_scores
    old = mod.SINGLE_PASS_SAMPLE_THRESHOLD
    mod.SINGLE_PASS_SAMPLE_THRESHOLD = 2
    try:
        for P, N in ((1, 2), (2, 2)):
            gs = h.sa.GroupScores(h.array(h.reals(f"p{P}{N}_", P)), h.array(h.reals(f"n{P}{N}_", N)), pos_groups=[0] * P, neg_groups=[0] * N)
            for strat in (None, "by_label", "by_group"):
                m = gs._sampling_method(h.sa.BootstrapConfig(sampling_method="dynamic", stratified_sampling=strat))
                want = "replacement" if (strat == "by_group" or P < 2 or N < 2) else "single_pass"
                h.check("dynamic: single_pass only with enough scores per class and no group stratification", m == want)
        # a sample drawn with the default 'dynamic' method on an object large enough for single pass
        pos, neg = h.reals("dp", 2), h.reals("dn", 2)
        for a in (pos, neg):
            h.assume(a[0] <= a[1])
        pg, ng = [0, 1], [1, 0]
        gs = h.sa.GroupScores(h.array(pos), h.array(neg), pos_groups=pg, neg_groups=ng, score_class="neg", equal_class="pos", is_sorted=True)
        h.policy(mult_cap=2)
        for strat in ("by_label",):      # non-stratified single pass has symbolic drawn sizes: covered by the sampling items
            B = gs.bootstrap_sample(h.sa.BootstrapConfig(sampling_method="dynamic", stratified_sampling=strat))
            _check_sample(h, B, pos, neg, pg, ng, tag=f"[dynamic/{strat}] ")
    finally:
        mod.SINGLE_PASS_SAMPLE_THRESHOLD = old


def run_errors(h):
    gs = h.sa.GroupScores(h.array(h.reals("p", 1)), h.array(h.reals("n", 1)), pos_groups=[0], neg_groups=[1])
    for kw in ({"smoothing": True}, {"sampling_method": "proportion", "ratio": h.const("1/2")}, {"sampling_method": "bogus"}, {"sampling_method": 3},
               {"sampling_method": "replacement", "stratified_sampling": "by_colour"}):
        try:
            gs.bootstrap_sample(h.sa.BootstrapConfig(**kw))
            h.fail(f"unsupported configuration {sorted(kw)} must raise ValueError")
        except ValueError:
            h.check("unsupported configuration raises ValueError", True)
    try:
        gs[5]
        h.fail("unknown group must raise ValueError")
    except ValueError:
        h.check("unknown group raises ValueError", True)
    marker = object()
    h.check("callable sampler result returned as is", gs.bootstrap_sample(h.sa.BootstrapConfig(sampling_method=lambda s: marker)) is marker)
