"""C03 — extreme operating points (r <= 0, r >= 1) are honoured exactly (R-ideal + concrete float replays)."""
from .common import CFGS
from .thr import METRICS, achievable, numerator
from .C02 import _scores, _mk, sizes

META = {
    "bounds": {
        "quick": {"relevant class": "1..3 scored samples (single score included), sorted, ties allowed; topr/tonr P+N <= 4",
                  "easy counts": "symbolic Int in [0,8]", "target": "any real r <= 0 and any real r >= 1", "methods": "linear/lower/higher", "configs": "4 x 6 metrics"},
        "thorough": {"relevant class": "1..6; topr/tonr P+N <= 6", "easy counts": "symbolic Int in [0,50]", "target": "as quick", "methods": "all", "configs": "all"},
    },
    "assumptions": ["R-ideal: exact real arithmetic; the float64 rounding of (r - easy)/hard is covered only by the F-bits lemma items (kind=fbits) over enumerated small counts",
                    "nextafter = one-step function with gap axioms against all input scores"],
}
OPTS = {"quick": {"query_timeout_ms": 30000}, "thorough": {"query_timeout_ms": 120000}}


def items(tier):
    out = []
    K = 8 if tier == "quick" else 50
    for metric in METRICS:
        for sc, ec in CFGS:
            for P, N in sizes(metric, tier):
                for side in ("low", "high"):
                    out.append({"kind": "extreme", "metric": metric, "sc": sc, "ec": ec, "P": P, "N": N, "K": K, "side": side})
    for metric in ("tpr", "tnr", "topr", "tonr"):
        out.append({"kind": "fbits", "metric": metric, "nmax": 4 if tier == "quick" else 8, "kmax": 8 if tier == "quick" else 40})
    return out


def run(h, kind, **p):
    return run_extreme(h, **p) if kind == "extreme" else run_fbits(h, **p)


def run_extreme(h, metric, sc, ec, P, N, K, side):
    pos, neg = _scores(h, P, N)
    kp, kn = h.int("kp", 0, K), h.int("kn", 0, K)
    S = _mk(h, pos, neg, kp, kn, sc, ec, metric)
    r = h.real("r", float_atom=False)
    h.assume(r <= 0 if side == "low" else r >= 1)
    lo, hi = achievable(metric, P, N, kp, kn)
    want = lo if side == "low" else hi
    for method in ("linear", "lower", "higher"):
        t = getattr(S, f"threshold_at_{metric}")(r, method=method)
        cm = h.cells(S.cm(t).matrix)
        own = {"tpr": cm[0], "fnr": cm[1], "fpr": cm[2], "tnr": cm[3], "topr": cm[0] + cm[2], "tonr": cm[1] + cm[3]}[metric]
        h.check(f"{metric} at threshold_at_{metric}(r {'<= 0' if side == 'low' else '>= 1'}, {method}) is exactly the {'lowest' if side == 'low' else 'highest'} achievable value",
                h.eq(own, want))


def run_fbits(h, metric, nmax, kmax):
    """F-bits lemma, decided by exhaustive concrete evaluation of the float kernel (no solver needed: the
    kernel `min(max(r - e, 0)/hr, 1)` has no symbolic input once r=1.0 and the counts are enumerated): an
    extreme target must still be an extreme target after the real code's rescaling, i.e. the metric at
    threshold_at_<metric>(1.0) is the highest achievable one for every small (n, k)."""
    if h.mode == "sym":
        # the symbolic harness only schedules the concrete sweep: it has no symbolic input
        from symx.harness import replay as _rp, real_sa

        class _W(dict):
            pass

        import importlib

        res = _rp(importlib.import_module("checks.C03").run, {"kind": "fbits", "metric": metric, "nmax": nmax, "kmax": kmax}, {})
        h.check("float kernel sweep: extreme target survives rescaling for all enumerated (n,k)", res["status"] == "ok" and not res["failed"])
        if res["status"] != "ok" or res["failed"]:
            h.r._violation("float kernel sweep", {}, res, kind="obligation")
        return
    np = h.np
    bad = []
    for n in range(1, nmax + 1):
        for k in range(0, kmax + 1):
            for sc, ec in CFGS:
                kw = {"nb_easy_pos": k} if metric in ("tpr", "topr") else {"nb_easy_neg": k}
                if metric in ("tpr",):
                    S = h.sa.Scores(np.arange(n) + 0.5, [0.0], score_class=sc, equal_class=ec, **kw)
                elif metric == "tnr":
                    S = h.sa.Scores([0.0], np.arange(n) + 0.5, score_class=sc, equal_class=ec, **kw)
                else:
                    S = h.sa.Scores(np.arange(n) + 0.5, np.arange(n) + 0.25, score_class=sc, equal_class=ec, **kw)
                for method in ("linear", "lower", "higher"):
                    t = getattr(S, f"threshold_at_{metric}")(1.0, method=method)
                    v = getattr(S, metric)(t)
                    if v != 1.0:
                        bad.append((n, k, sc, ec, method, float(v)))
    h.note(f"fbits {metric}: {len(bad)} failures, first: {bad[:3]}")
    h.check(f"{metric}: threshold_at_{metric}(1.0) reaches exactly 1.0 for all n<={nmax}, k<={kmax}", not bad)
