"""C03 — extreme operating points (r <= 0, r >= 1) are honoured exactly (R-ideal + concrete float replays)."""
from .common import CFGS
from .thr import METRICS, achievable, numerator
from .C02 import _scores, _mk, sizes

META = {
    "bounds": {
        "quick": {"relevant class": "1..3 scored samples (single score included), sorted, ties allowed; topr/tonr P+N <= 4",
                  "easy counts": "symbolic Int in [0,8]", "target": "any real r <= 0 and any real r >= 1", "methods": "linear/lower/higher", "configs": "4 x 6 metrics"},
        "thorough": {"relevant class": "1..6; topr/tonr P+N <= 6", "easy counts": "symbolic Int in [0,50]", "target": "as quick", "methods": "all", "configs": "all"},
    },
    "assumptions": ["R-ideal: exact real arithmetic for kind=extreme; the float64 rounding of (r - easy)/hard is decided in the F-bits regime (kind=fbits_smt: z3 FloatingPoint, symbolic double r >= 1 through the real rescaling code, counts enumerated) and additionally swept concretely (kind=fbits)",
                    "nextafter = one-step function with gap axioms against all input scores"],
}
OPTS = {"quick": {"query_timeout_ms": 30000}, "thorough": {"query_timeout_ms": 120000}}


def items(tier):
    out = []
    K = 8 if tier == "quick" else 50
    for metric in METRICS:
        for sc, ec in CFGS:
            for P, N in sizes(metric, tier):
                for side in ("low", "high"):
                    out.append({"kind": "extreme", "metric": metric, "sc": sc, "ec": ec, "P": P, "N": N, "K": K, "side": side})
    for metric in ("tpr", "tnr", "topr", "tonr"):
        out.append({"kind": "fbits", "metric": metric, "nmax": 4 if tier == "quick" else 8, "kmax": 40 if tier == "quick" else 400})
    for metric in ("tpr", "tnr", "topr", "tonr"):
        # ~3-25 s of bit-blasting per (n, k) query (fpSub, fpDiv on a symbolic double): small grid in the quick tier
        for n in ((1, 3) if tier == "quick" else range(1, 7)):
            for k0 in ((0, 5) if tier == "quick" else range(0, 40, 5)):
                out.append({"kind": "fbits_smt", "metric": metric, "n": n, "k0": k0, "kmax": k0 + 4})
    # mixed dtypes: integer scores in one class, float scores in the other (pooled metrics must not truncate)
    for metric in ("topr", "tonr"):
        for sc, ec in CFGS:
            for ints in ("neg", "pos"):
                for side in ("low", "high"):
                    out.append({"kind": "mixed", "metric": metric, "sc": sc, "ec": ec, "ints": ints, "side": side})
    # integer scores in BOTH classes (dtype int everywhere): the one-step sentinel must not be truncated back onto a score
    for metric in METRICS:
        for sc, ec in CFGS:
            for side in ("low", "high"):
                out.append({"kind": "mixed", "metric": metric, "sc": sc, "ec": ec, "ints": "both", "side": side})
    return out


def run(h, kind, **p):
    return {"extreme": run_extreme, "fbits": run_fbits, "mixed": run_mixed, "fbits_smt": run_fbits_smt}[kind](h, **p)


def run_fbits_smt(h, metric, n, kmax, k0=0):
    """F-bits lemma decided by z3 FloatingPoint on the REAL rescaling code: for every IEEE double r >= 1.0 the target
    handed on by threshold_at_<metric> is still >= 1.0 (so the exact-extreme branch is taken), for each enumerated
    count pair (n scored, k easy).  In this regime concrete numbers are doubles too: the repository's divisions of
    Python numbers are IEEE divisions (constant-folded by z3), no rational arithmetic is involved."""
    h.policy(fp_kernel=True)
    r = h.fp("r")
    h.assume(r >= 1.0)
    captured = []
    base = h.sa.Scores

    class Spy(base):
        def _threshold_at_ratio(self, scores, target_ratio, increasing, ratio_class, method):
            captured.append(target_ratio)
            return 0.0

    for k in range(k0, kmax + 1):
        kw = {"nb_easy_pos": k} if metric in ("tpr", "topr") else {"nb_easy_neg": k}
        pos = [0.5 + i for i in range(n)] if metric != "tnr" else [0.0]
        neg = [0.0] if metric == "tpr" else [0.25 + i for i in range(n)]
        S = Spy(pos, neg, **kw)
        del captured[:]
        getattr(S, f"threshold_at_{metric}")(r)
        h.check(f"[float64] n={n}: a target r >= 1.0 is still >= 1.0 after the easy-sample rescaling (all doubles r, k=0..{kmax})",
                len(captured) == 1 and captured[0] >= 1.0)


def run_mixed(h, metric, sc, ec, ints, side):
    """one class holds integer scores (dtype int), the other floats; P=N=2, sorted."""
    mk = lambda pre, isint: (h.ints(pre, 2, -4, 4) if isint else h.reals(pre, 2))
    pos, neg = mk("p", ints in ("pos", "both")), mk("n", ints in ("neg", "both"))
    for a in (pos, neg):
        h.assume(a[0] <= a[1])
    h.policy(gather="fork", sort="fork")
    S = h.sa.Scores(h.array(pos), h.array(neg), nb_easy_pos=1, nb_easy_neg=1, score_class=sc, equal_class=ec)
    r = h.const("0") if side == "low" else h.const("1")
    lo, hi = achievable(metric, 2, 2, 1, 1)
    want = lo if side == "low" else hi
    for method in ("linear", "lower", "higher"):
        t = getattr(S, f"threshold_at_{metric}")(r, method=method)
        cm = h.cells(S.cm(t).matrix)
        own = {"tpr": cm[0], "fnr": cm[1], "fpr": cm[2], "tnr": cm[3], "topr": cm[0] + cm[2], "tonr": cm[1] + cm[3]}[metric]
        h.check(f"mixed int/float scores: {metric} at the extreme target is exactly the extreme value ({method})", h.eq(own, want))


def run_extreme(h, metric, sc, ec, P, N, K, side):
    pos, neg = _scores(h, P, N)
    kp, kn = h.int("kp", 0, K), h.int("kn", 0, K)
    S = _mk(h, pos, neg, kp, kn, sc, ec, metric)
    r = h.real("r", float_atom=False)
    h.assume(r <= 0 if side == "low" else r >= 1)
    lo, hi = achievable(metric, P, N, kp, kn)
    want = lo if side == "low" else hi
    for method in ("linear", "lower", "higher"):
        t = getattr(S, f"threshold_at_{metric}")(r, method=method)
        cm = h.cells(S.cm(t).matrix)
        own = {"tpr": cm[0], "fnr": cm[1], "fpr": cm[2], "tnr": cm[3], "topr": cm[0] + cm[2], "tonr": cm[1] + cm[3]}[metric]
        h.check(f"{metric} at threshold_at_{metric}(r {'<= 0' if side == 'low' else '>= 1'}, {method}) is exactly the {'lowest' if side == 'low' else 'highest'} achievable value",
                h.eq(own, want))


def run_fbits(h, metric, nmax, kmax):
    """F-bits lemma: an extreme target must still be an extreme target after the real code's float64 rescaling
    `min(max(r - easy, 0)/hard, 1)`.  Round-to-nearest subtraction, division, min and max are monotone in r, so
    'for all doubles r >= 1.0' reduces to the single point r = 1.0; with the counts (n, k) enumerated the kernel has
    no symbolic input left and is decided by evaluating the real code (auxiliary to the solver items; it is an
    enumeration over (n, k), stated as such in the evidence)."""
    if h.mode == "sym":
        # the symbolic harness only schedules the concrete sweep: it has no symbolic input
        from symx.harness import replay as _rp, real_sa

        class _W(dict):
            pass

        import importlib

        res = _rp(importlib.import_module("checks.C03").run, {"kind": "fbits", "metric": metric, "nmax": nmax, "kmax": kmax}, {})
        h.check("float kernel sweep: extreme target survives rescaling for all enumerated (n,k)", res["status"] == "ok" and not res["failed"])
        if res["status"] != "ok" or res["failed"]:
            h.r._violation("float kernel sweep", {}, res, kind="obligation")
        return
    np = h.np
    bad = []
    for n in range(1, nmax + 1):
        for k in list(range(0, kmax + 1)) + [100, 333, 1000, 3333, 5000, 10 ** 4, 10 ** 5, 10 ** 6]:
            for sc, ec in CFGS:
                kw = {"nb_easy_pos": k} if metric in ("tpr", "topr") else {"nb_easy_neg": k}
                if metric in ("tpr",):
                    S = h.sa.Scores(np.arange(n) + 0.5, [0.0], score_class=sc, equal_class=ec, **kw)
                elif metric == "tnr":
                    S = h.sa.Scores([0.0], np.arange(n) + 0.5, score_class=sc, equal_class=ec, **kw)
                else:
                    S = h.sa.Scores(np.arange(n) + 0.5, np.arange(n) + 0.25, score_class=sc, equal_class=ec, **kw)
                for method in ("linear", "lower", "higher"):
                    t = getattr(S, f"threshold_at_{metric}")(1.0, method=method)
                    v = getattr(S, metric)(t)
                    if v != 1.0:
                        bad.append((n, k, sc, ec, method, float(v)))
    h.note(f"fbits {metric}: {len(bad)} failures, first: {bad[:3]}")
    h.check(f"{metric}: threshold_at_{metric}(1.0) reaches exactly 1.0 for all n<={nmax}, k<={kmax}", not bad)
