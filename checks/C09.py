"""C09 — virtual easy samples behave exactly like materialised extreme scores (R-ideal)."""
from .common import CFGS
from .thr import METRICS

META = {
    "bounds": {"quick": {"scored": "P,N in 1..2 (sorted, ties allowed)", "easy": "k,m in 0..2 materialised as symbolic scores beyond all others on their class's side",
                         "thresholds": "symbolic, strictly between the materialised extremes", "targets": "any real r (six metrics, linear)"},
               "thorough": {"scored": "P,N in 1..3", "easy": "k,m in 0..3"}},
    "assumptions": ["R-ideal: exact real arithmetic", "AUC equality of the two objects is discharged in C07 (same transformation)"],
}
OPTS = {"quick": {"query_timeout_ms": 30000}, "thorough": {"query_timeout_ms": 120000, "max_paths": 50000}}


def items(tier):
    out = []
    szs = [(1, 1), (2, 1), (2, 2)] if tier == "quick" else [(1, 1), (2, 1), (1, 2), (2, 2), (3, 2), (3, 3)]
    ks = [(0, 1), (1, 0), (2, 1), (1, 2)] if tier == "quick" else [(0, 1), (1, 0), (2, 1), (1, 2), (3, 0), (0, 3), (3, 3), (2, 2)]
    for sc, ec in CFGS:
        for P, N in szs:
            for k, m in ks:
                out.append({"kind": "cm", "sc": sc, "ec": ec, "P": P, "N": N, "k": k, "m": m})
        for metric in METRICS:
            cls = METRICS[metric][0]
            # the relevant class needs >= 2 scored samples, otherwise "inside the scored range" pins the threshold to the single score
            tsz = {"pos": [(2, 1), (3, 1)], "neg": [(1, 2), (1, 3)], "all": [(1, 1), (2, 1), (1, 2)]}[cls]
            if tier == "thorough":
                tsz = {"pos": [(2, 1), (3, 2), (4, 1)], "neg": [(1, 2), (2, 3), (1, 4)], "all": [(1, 1), (2, 1), (1, 2), (2, 2)]}[cls]
            for P, N in tsz:
                for k, m in (ks[2:4] if tier == "quick" else ks[2:6]):
                    out.append({"kind": "thr", "sc": sc, "ec": ec, "metric": metric, "P": P, "N": N, "k": k, "m": m})
    return out


def run(h, kind, **p):
    return globals()["run_" + kind](h, **p)


def _setup(h, sc, P, N, k, m):
    pos, neg = h.reals("p", P), h.reals("n", N)
    for a in (pos, neg):
        for i in range(len(a) - 1):
            h.assume(a[i] <= a[i + 1])
    ep, en = h.reals("ep", k), h.reals("en", m)     # materialised easy positives / negatives
    allv = pos + neg
    for e in ep:   # beyond all other scores on the positive side
        h.assume(h.And([(e > x) if sc == "pos" else (e < x) for x in allv + en]))
    for e in en:   # beyond all other scores on the negative side
        h.assume(h.And([(e < x) if sc == "pos" else (e > x) for x in allv + ep]))
    return pos, neg, ep, en


def run_cm(h, sc, ec, P, N, k, m):
    pos, neg, ep, en = _setup(h, sc, P, N, k, m)
    E = h.sa.Scores(h.array(pos), h.array(neg), nb_easy_pos=k, nb_easy_neg=m, score_class=sc, equal_class=ec)
    M = h.sa.Scores(h.array(pos + ep), h.array(neg + en), score_class=sc, equal_class=ec)
    t = h.real("t")
    for e in ep:
        h.assume((t < e) if sc == "pos" else (t > e))
    for e in en:
        h.assume((t > e) if sc == "pos" else (t < e))
    a, b = h.cells(E.cm(t).matrix), h.cells(M.cm(t).matrix)
    h.check("same confusion matrix at every threshold between the materialised extremes", h.And([h.eq(x, y) for x, y in zip(a, b)]))
    for prop in ("nb_all_pos", "nb_all_neg", "nb_all_samples"):
        h.check(f"{prop} agrees", h.eq(getattr(E, prop), getattr(M, prop)))


def run_thr(h, sc, ec, metric, P, N, k, m):
    pos, neg, ep, en = _setup(h, sc, P, N, k, m)
    h.policy(gather="fork", sort="fork")
    E = h.sa.Scores(h.array(pos), h.array(neg), nb_easy_pos=k, nb_easy_neg=m, score_class=sc, equal_class=ec)
    M = h.sa.Scores(h.array(pos + ep), h.array(neg + en), score_class=sc, equal_class=ec)
    r = h.real("r", float_atom=False)
    te = getattr(E, f"threshold_at_{metric}")(r)
    tm = getattr(M, f"threshold_at_{metric}")(r)
    rel = pos if METRICS[metric][0] == "pos" else neg if METRICS[metric][0] == "neg" else pos + neg
    inside = h.And(h.le(h.min(rel), tm), h.le(tm, h.max(rel)))
    h.check(f"threshold_at_{metric}: equal whenever the materialised threshold lies within the scored range", h.Implies(inside, h.near(te, tm)))
