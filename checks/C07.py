"""C07 — AUC = Mann-Whitney statistic; partial AUC = exact area under the empirical step ROC (R-ideal, forked order)."""
from .common import CFGS

META = {
    "bounds": {"quick": {"scores": "P,N in 1..2 (sorted harness; full AUC: arbitrary ties; partial AUC: no cross-class ties)", "easy counts": "{(0,0),(1,2)}",
                         "interval": "symbolic 0 <= lower <= upper <= 1", "axes": "fpr/tpr, y=fnr, x=tnr, exchanged axes"},
               "thorough": {"scores": "full AUC: P+N <= 5 (3+2, 2+3); partial AUC: P,N <= 2 for every configuration and easy pair, 3+2 / 2+3 for two configurations each with easy (1,2); 3+3 is outside (hours)", "easy counts": "{(0,0),(1,2),(2,0)}"}},
    "assumptions": ["R-ideal: rates and the trapezoid sum are exact rationals", "one path per weak order of the scores and their one-step neighbours (adjacent floats included); on each path all counts are folded to constants (entailed by the path condition), so the area is linear in lower/upper",
                    "nextafter = one-step functions with gap axioms against all input scores (R-ideal items); kind=fbits: z3 FloatingPoint scores with bit-precise nextafter through the real auc() on 1+1 scores (rates stay exact rationals)"],
}
OPTS = {"quick": {"query_timeout_ms": 30000, "max_paths": 100000, "max_decisions": 5000, "check_timeout_ms": 10000},
        "thorough": {"query_timeout_ms": 120000, "max_paths": 1000000, "max_decisions": 20000}}


def items(tier):
    out = []
    # measured (one core): full 3+2 / 2+3 ~200 s per item; partial 3+2 ~2500 s per (config, easy pair) over its 4 slices; 3+3 does not
    # fit any budget (hours) and is outside both tiers
    szs = [(1, 1), (2, 1), (1, 2), (2, 2)] if tier == "quick" else [(1, 1), (2, 1), (1, 2), (2, 2), (3, 2), (2, 3)]
    easy = [(0, 0), (1, 2)] if tier == "quick" else [(0, 0), (1, 2), (2, 0)]
    for ci, (sc, ec) in enumerate(CFGS):
        for P, N in szs:
            for kp, kn in easy:
                out.append({"kind": "full", "sc": sc, "ec": ec, "P": P, "N": N, "kp": kp, "kn": kn})
                if P + N == 5 and not ((kp, kn) == (1, 2) and (P, N) == ((3, 2) if ci < 2 else (2, 3))):
                    continue      # partial AUC at 5 scores: one easy pair, 3+2 for two configurations and 2+3 for the other two
                if (P, N) != (2, 2) or tier == "thorough" or (kp, kn) == (1, 2):
                    if P * N >= 4:   # split the order types over work items (first/last pair comparisons) for parallelism
                        for sl in range(4):
                            out.append({"kind": "partial", "sc": sc, "ec": ec, "P": P, "N": N, "kp": kp, "kn": kn, "slice": sl})
                    else:
                        out.append({"kind": "partial", "sc": sc, "ec": ec, "P": P, "N": N, "kp": kp, "kn": kn})
    for sc, ec in CFGS:
        out.append({"kind": "fbits", "sc": sc, "ec": ec})
    # heaviest items first (the pool takes items in order): partial AUC on 5 scores takes 6-15 min per slice
    out.sort(key=lambda it: -((it.get("P", 0) * it.get("N", 0)) ** 2 * (3 if it["kind"] == "partial" else 1)))
    return out


def run_fbits(h, sc, ec):
    """F-bits: one positive and one negative score as SYMBOLIC IEEE doubles (equal, adjacent or apart), bit-precise
    nextafter: the real auc() returns exactly 1, 1/2 or 0 as the Mann-Whitney statistic demands."""
    x, y = h.fp("pos0"), h.fp("neg0")
    h.policy(sort="fork", gather="fork", fold=True)
    S = h.sa.Scores(h.array([x]), h.array([y]), score_class=sc, equal_class=ec, is_sorted=True)
    a = S.auc()
    beats = (x > y) if sc == "pos" else (x < y)
    h.check("[float64] AUC of one positive and one negative double = 1 if ranked correctly, 1/2 if tied, 0 otherwise (adjacent doubles included)",
            h.eq(a * 2, h.ite(beats, 2, h.ite(x == y, 1, 0))))


def run(h, kind, **p):
    return globals()["run_" + kind](h, **p)


def _S(h, sc, ec, P, N, kp, kn, no_cross_ties=False):
    pos, neg = h.reals("p", P), h.reals("n", N)
    for a in (pos, neg):
        for i in range(len(a) - 1):
            h.assume(a[i] <= a[i + 1])
    if no_cross_ties:
        for a in pos:
            for b in neg:
                h.assume(h.Not(h.eq(a, b, 0)))
    h.policy(sort="fork", gather="fork", fold=True)
    S = h.sa.Scores(h.array(pos), h.array(neg), nb_easy_pos=kp, nb_easy_neg=kn, score_class=sc, equal_class=ec, is_sorted=True)
    return S, pos, neg


def _beats(h, sc, p, n):
    return (p > n) if sc == "pos" else (p < n)


def run_full(h, sc, ec, P, N, kp, kn):
    S, pos, neg = _S(h, sc, ec, P, N, kp, kn)
    a = S.auc()
    wins = h.sum([h.ite(_beats(h, sc, p, n), 2, h.ite(h.eq(p, n, 0), 1, 0)) for p in pos for n in neg])   # in half-pairs
    total = 2 * (P + kp) * (N + kn)
    mw = wins + 2 * kp * (N + kn) + 2 * P * kn      # easy positives beat every negative; every scored positive beats easy negatives
    h.check("full AUC = Mann-Whitney statistic (ties count one half; easy samples rank beyond every scored sample)", h.eq(a * total, mw))
    h.check("0 <= AUC <= 1", h.And(h.le(0, a), h.le(a, 1)))
    b = S.auc(x_axis="tpr", y_axis="fpr")
    h.check("exchanging the axes over the full range gives 1 - AUC", h.eq(a + b, 1))
    c = S.auc(y_axis="fnr")
    h.check("y = fnr gives 1 - AUC over the full range", h.eq(a + c, 1))


def _step_area(h, sc, pos, neg, kp, kn, lo, up):
    """exact area under the empirical step ROC over [lo, up] (no cross-class ties)."""
    P, N = len(pos), len(neg)
    Pt, Nt = P + kp, N + kn
    # negatives in the order in which they are accepted as the threshold is relaxed
    order = list(reversed(neg)) if sc == "pos" else list(neg)
    area = 0
    for k in range(N):
        a, b = h.const(f"{k}/{Nt}"), h.const(f"{k + 1}/{Nt}")
        nk = order[k]      # next negative to be accepted; positives beating it are already accepted
        tpr = (kp + h.count([_beats(h, sc, p, nk) for p in pos])) / Pt
        left, right = h.max([lo, a]), h.min([up, b])
        area = area + tpr * h.ite(right > left, right - left, 0)
    a = h.const(f"{N}/{Nt}")
    left = h.max([lo, a])
    area = area + h.ite(up > left, up - left, 0)      # beyond the last scored negative: every positive accepted
    return area


def run_partial(h, sc, ec, P, N, kp, kn, slice=None):
    S, pos, neg = _S(h, sc, ec, P, N, kp, kn, no_cross_ties=True)
    if slice is not None:
        bits = [(pos[0], neg[0]), (pos[-1], neg[-1]), (pos[0], neg[-1])]
        for b, (x, y) in enumerate(bits[:2 if P * N < 9 else 3]):
            h.assume((x < y) if (slice >> b) & 1 else (x > y))
    lo, up = h.real("lower", float_atom=False), h.real("upper", float_atom=False)
    h.assume(h.And(0 <= lo, lo <= up, up <= 1))
    a = S.auc(lo, up)
    want = _step_area(h, sc, pos, neg, kp, kn, lo, up)
    h.check("partial AUC = exact area under the step ROC over [lower, upper]", h.eq(a, want))
    h.check("partial AUC <= upper - lower and >= 0", h.And(h.le(0, a), h.le(a, up - lo)))
    c = S.auc(lo, up, y_axis="fnr")
    h.check("y = fnr: (upper - lower) - area", h.eq(c, (up - lo) - a))
    d = S.auc(1 - up, 1 - lo, x_axis="tnr")
    h.check("x = tnr mirrors the interval", h.eq(d, a))
    if P * N >= 4 and slice != 0:
        return      # the call-history obligations below add a full auc() run: small sizes and one order-type slice only
    # call history on one object: after partial calls, the full-range results are still the Mann-Whitney statistic
    full = S.auc()
    wins = h.sum([h.ite(_beats(h, sc, p, n), 2, 0) for p in pos for n in neg])
    h.check("full AUC after partial calls on the same object = Mann-Whitney statistic", h.eq(full * (2 * (P + kp) * (N + kn)), wins + 2 * kp * (N + kn) + 2 * P * kn))
    if P * N < 4:
        h.check("exchanged axes after partial calls: 1 - AUC", h.eq(S.auc(x_axis="tpr", y_axis="fpr") + full, 1))
