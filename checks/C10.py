"""C10 — queries are vectorised elementwise, shape-preserving and side-effect free (R-exact / R-ideal)."""
import itertools

from .common import CFGS
from .thr import METRICS, THR_ALIAS

META = {
    "bounds": {"quick": {"scores": "P=N=2 symbolic (sorted harness; is_sorted True and False)", "argument shapes": "(), (1,), (3,), (0,), (2,1), (1,2), (0,2), (2,1,2) with independent symbolic elements",
                         "histories": "all ordered pairs of 19 deterministic queries on one object (thorough: 22 incl. auc, threshold_at_metric); all ordered triples over 6 queries"},
               "thorough": {"scores": "P=3,N=2", "argument shapes": "as quick", "histories": "pairs + triples over 8 queries"}},
    "assumptions": ["R-exact for matrices/rates, R-ideal for thresholds", "eer() (data-dependent bisection) is not part of the history sets; auc() is",
                    "the array model shares cells between views (basic indexing, asarray) and copies otherwise, as NumPy does — this is what makes in-place writes visible"],
}
OPTS = {"quick": {"query_timeout_ms": 30000, "max_decisions": 20000}, "thorough": {"query_timeout_ms": 120000, "max_paths": 50000, "max_decisions": 50000}}
SHAPES = [(), (1,), (3,), (0,), (2, 1), (1, 2), (0, 2), (2, 1, 2)]
RATE_ALIAS = {"tpr": "tar", "fnr": "frr", "tnr": "trr", "fpr": "far", "topr": "acceptance_rate", "tonr": "rejection_rate"}


def items(tier):
    out = []
    for sc, ec in CFGS:
        for shape in SHAPES:
            out.append({"kind": "cm_rates", "sc": sc, "ec": ec, "shape": list(shape)})
        for shape in SHAPES:
            for metric in (["fnr", "tpr", "topr"] if tier == "quick" else list(METRICS)):
                out.append({"kind": "thresholds", "sc": sc, "ec": ec, "shape": list(shape), "metric": metric})
        out.append({"kind": "pointwise", "sc": sc, "ec": ec})
        out.append({"kind": "nomutation", "sc": sc, "ec": ec, "is_sorted": True, "heavy": tier == "thorough" or (sc, ec) == ("neg", "pos")})
        out.append({"kind": "nomutation", "sc": sc, "ec": ec, "is_sorted": False, "heavy": tier == "thorough"})
        out.append({"kind": "nomutation", "sc": sc, "ec": ec, "is_sorted": True, "heavy": False, "easy": [0, 0]})   # no easy samples: rescaling is the identity
    for sc, ec in (CFGS if tier == "thorough" else CFGS[1:3]):
        for metric in (("fnr", "tpr") if tier == "quick" else ("fnr", "tpr", "fpr", "topr")):
            out.append({"kind": "points_arg", "sc": sc, "ec": ec, "metric": metric, "npts": 3})
    heavy = tier == "thorough"
    for i in range(22 if heavy else 19):
        out.append({"kind": "history2", "first": i, "heavy": heavy})
    out.append({"kind": "history3"})
    for shape in SHAPES[:6]:
        out.append({"kind": "cmmetrics", "shape": list(shape)})
    return out


def run(h, kind, **p):
    return globals()["run_" + kind](h, **p)


def _nprod(shape):
    n = 1
    for s in shape:
        n *= s
    return n


def _arg(h, prefix, shape, **kw):
    """array (or scalar) of the given shape with independent symbolic elements; returns (value, flat elements)"""
    n = _nprod(shape)
    els = [h.real(f"{prefix}{i}", **kw) for i in range(n)]
    if shape == ():
        return els[0], els
    if n == 0:
        return h.np.zeros(shape), els
    return h.np.reshape(h.array(els), shape), els


def _S(h, sc, ec, P=2, N=2, is_sorted=None, kp=1, kn=2):
    pos, neg = h.reals("p", P), h.reals("n", N)
    if is_sorted is not False:       # is_sorted=False: genuinely unsorted input, so that an in-place sort would be visible
        for a in (pos, neg):
            for i in range(len(a) - 1):
                h.assume(a[i] <= a[i + 1])
    pa, na = h.array(pos), h.array(neg)
    pre = (h.snapshot(pa), h.snapshot(na))       # taken BEFORE the constructor runs
    S = h.sa.Scores(pa, na, nb_easy_pos=kp, nb_easy_neg=kn, score_class=sc, equal_class=ec, is_sorted=bool(is_sorted))
    S._verif_pre = pre
    return S, pos, neg, pa, na


def _same(h, a, b):
    if h.is_nan(a) or h.is_nan(b):
        return h.is_nan(a) and h.is_nan(b)
    return h.eq(a, b, 0)


def run_cm_rates(h, sc, ec, shape):
    shape = tuple(shape)
    S, *_ = _S(h, sc, ec)
    T, els = _arg(h, "t", shape)
    m = S.cm(T).matrix
    h.check("cm shape = X + (2,2)", h.shape(m) == shape + (2, 2))
    cells = h.cells(m)
    for i, t in enumerate(els):
        one = h.cells(S.cm(t).matrix)
        h.check("cm element = scalar call", h.And([h.eq(a, b) for a, b in zip(cells[4 * i:4 * i + 4], one)]))
    for name, al in RATE_ALIAS.items():
        v = getattr(S, name)(T)
        va = getattr(S, al)(T)
        h.check(f"{name}: shape = X", h.shape(v) == shape and h.shape(va) == shape)
        if shape == ():
            h.check(f"{name}: scalar input gives a plain scalar", h.np.isscalar(v) and h.np.isscalar(va))
        vc, vac = h.cells(v), h.cells(va)
        for i, t in enumerate(els):
            h.check(f"{name}: element = scalar call; alias {al} identical", h.And(_same(h, vc[i], getattr(S, name)(t)), _same(h, vc[i], vac[i])))


def run_thresholds(h, sc, ec, shape, metric):
    shape = tuple(shape)
    S, *_ = _S(h, sc, ec)
    R, els = _arg(h, "r", shape, float_atom=False)
    for method in ("linear", "lower", "higher"):
        f = getattr(S, f"threshold_at_{metric}")
        fa = getattr(S, THR_ALIAS[metric])
        v, va = f(R, method=method), fa(R, method=method)
        h.check(f"threshold_at_{metric}[{method}]: shape = X", h.shape(v) == shape and h.shape(va) == shape)
        if shape == ():
            h.check("scalar target gives a plain scalar", h.np.isscalar(v))
        vc, vac = h.cells(v), h.cells(va)
        for i, r in enumerate(els):
            h.check(f"threshold_at_{metric}[{method}]: element = scalar call; alias identical",
                    h.And(h.eq(vc[i], f(r, method=method), 0), h.eq(vc[i], vac[i], 0)))


def run_pointwise(h, sc, ec):
    # elementwise agreement with scalar calls for C-contiguous, transposed and strided argument arrays
    for tag, mk in (("C", lambda a: a), ("T", lambda a: a.T), ("strided", lambda a: a[::-1])):
        labels = h.np.reshape(h.array(h.ints(f"lab{tag}", 6, 0, 1)), (2, 3))
        sc_arr, sels = _arg(h, f"sco{tag}", (2, 3))
        T0, tels = _arg(h, f"thr{tag}", (2, 2))
        L, Sx, T = mk(labels), mk(sc_arr), mk(T0)
        pw = h.sa.pointwise_cm(L, Sx, T, score_class=sc, equal_class=ec)
        h.check(f"[{tag}] pointwise_cm shape", h.shape(pw) == h.shape(Sx) + h.shape(T) + (2, 2))
        ss, tt, ll = h.shape(Sx), h.shape(T), h.cells(L)
        sv, tv = h.cells(Sx), h.cells(T)
        pc = h.cells(h.np.asarray(pw).astype(int))
        ok = []
        for i in range(len(sv)):
            for j in range(len(tv)):
                one = h.cells(h.np.asarray(h.sa.pointwise_cm([ll[i]], [sv[i]], tv[j], score_class=sc, equal_class=ec)).astype(int))
                g = pc[(i * len(tv) + j) * 4:(i * len(tv) + j) * 4 + 4]
                ok.append(h.And([h.eq(a, b) for a, b in zip(g, one)]))
        h.check(f"[{tag}] pointwise_cm element (i,j) = scalar call on (scores[i], threshold[j])", h.And(ok))
    for sshape, tshape in (((2,), (3,)), ((2, 1), (1, 2)), ((3,), ()), ((2,), (0,))):
        n = _nprod(sshape)
        labels = h.np.reshape(h.array(h.ints(f"l{len(sshape)}{len(tshape)}_", n, 0, 1)), sshape)
        scores, sels = _arg(h, f"s{len(sshape)}{len(tshape)}_", sshape)
        T, tels = _arg(h, f"t{len(sshape)}{len(tshape)}_", tshape)
        lsnap, ssnap = h.snapshot(labels), h.snapshot(scores)
        pw = h.sa.pointwise_cm(labels, scores, T, score_class=sc, equal_class=ec)
        h.check("pointwise_cm shape = scores.shape + threshold.shape + (2,2)", h.shape(pw) == sshape + tshape + (2, 2))
        h.check("pointwise_cm does not mutate its inputs", h.unchanged(lsnap, labels) and h.unchanged(ssnap, scores))


def _queries(h, S, t, r, T, R, heavy=True):
    """deterministic public queries as thunks returning flat cell lists (18 cheap ones + 4 that fork: auc, threshold_at_metric)."""
    q = []
    q.append(("cm(t)", lambda: h.cells(S.cm(t).matrix)))
    q.append(("cm(T)", lambda: h.cells(S.cm(T).matrix)))
    for name in RATE_ALIAS:
        q.append((f"{name}(T)", lambda name=name: h.cells(getattr(S, name)(T))))
    for metric in METRICS:
        q.append((f"threshold_at_{metric}(R)", lambda metric=metric: h.cells(getattr(S, f"threshold_at_{metric}")(R))))
    q.append(("threshold_at_fnr(r,lower)", lambda: h.cells(S.threshold_at_fnr(r, method="lower"))))
    q.append(("threshold_at_far(r,higher)", lambda: h.cells(S.threshold_at_far(r, method="higher"))))
    q.append(("swap().cm(t)", lambda: h.cells(S.swap().cm(t).matrix)))
    q.append(("properties", lambda: [S.hard_pos_ratio, S.hard_neg_ratio, S.easy_ratio, S.nb_all_samples]))
    q.append(("tar(t)", lambda: h.cells(S.tar(t))))
    if heavy:
        q.append(("threshold_at_metric(t,'fnr')", lambda: h.cells(S.threshold_at_metric(h.const("1/3"), "fnr"))))
        q.append(("auc()", lambda: [S.auc()]))
        q.append(("auc(1/4,3/4)", lambda: [S.auc(h.const("1/4"), h.const("3/4"))]))
    return q


def _eqlists(h, a, b):
    return len(a) == len(b) and h.And([_same(h, x, y) for x, y in zip(a, b)])


def run_nomutation(h, sc, ec, is_sorted, heavy, easy=(1, 2)):
    S, pos, neg, pa, na = _S(h, sc, ec, is_sorted=is_sorted, kp=easy[0], kn=easy[1])
    t, r = h.real("t"), h.real("r", float_atom=False)
    T, _ = _arg(h, "tt", (2,))
    R, _ = _arg(h, "rr", (2,), float_atom=False)
    h.check("constructor does not mutate the caller's arrays", h.unchanged(S._verif_pre[0], pa) and h.unchanged(S._verif_pre[1], na))
    snaps = {"caller pos": (pa, S._verif_pre[0]), "caller neg": (na, S._verif_pre[1]), "T": (T, h.snapshot(T)), "R": (R, h.snapshot(R)),
             "S.pos": (S.pos, h.snapshot(S.pos)), "S.neg": (S.neg, h.snapshot(S.neg))}
    scal = (S.nb_easy_pos, S.nb_easy_neg, S.score_class, S.equal_class)
    for name, q in _queries(h, S, t, r, T, R, heavy):
        first = q()
        again = q()
        h.check(f"{name}: repeating the query returns identical results", _eqlists(h, first, again))
        for what, (arr, snap) in snaps.items():
            h.check(f"{name}: does not mutate {what}", h.unchanged(snap, arr))
        h.check(f"{name}: object configuration untouched",
                (S.nb_easy_pos, S.nb_easy_neg, S.score_class, S.equal_class) == scal and S.pos is snaps["S.pos"][0] and S.neg is snaps["S.neg"][0])
    if is_sorted:
        h.check("is_sorted=True: the object aliases the caller's arrays (documented fast path), still unmodified", S.pos is pa and S.neg is na)


def run_points_arg(h, sc, ec, metric, npts):
    """threshold_at_metric with caller-owned ndarrays for `target` and `points` (points in ANY order, ties allowed):
    neither array is modified, and asking again returns the same thresholds"""
    S, pos, neg, pa, na = _S(h, sc, ec, is_sorted=True, kp=1, kn=2)
    pts = h.array(h.reals("q", npts))
    R, _ = _arg(h, "rr", (2,), float_atom=False)
    snap_p, snap_r = h.snapshot(pts), h.snapshot(R)
    h.policy(gather="fork", sort="fork")
    def ask():
        # points out of order are outside invert_pl_function's documented domain (x increasing): several crossings per target make
        # the result ragged and NumPy refuses it with ValueError - accepted; the arrays must be left alone all the same
        try:
            return h.cells(S.threshold_at_metric(R, metric, points=pts))
        except ValueError:
            return None

    first = ask()
    h.check("threshold_at_metric(points=ndarray): caller's points array untouched (order included)", h.unchanged(snap_p, pts))
    h.check("threshold_at_metric(points=ndarray): caller's target array untouched", h.unchanged(snap_r, R))
    again = ask()
    h.check("threshold_at_metric(points=ndarray): repeating the query returns identical results",
            (first is None and again is None) or (first is not None and again is not None and _eqlists(h, first, again)))
    h.check("threshold_at_metric(points=ndarray): arrays still untouched after the second call", h.unchanged(snap_p, pts) and h.unchanged(snap_r, R))
    h.check("threshold_at_metric(points=ndarray): scores untouched", h.unchanged(S._verif_pre[0], pa) and h.unchanged(S._verif_pre[1], na))


def _fresh_pair(h):
    pos, neg = h.reals("p", 2), h.reals("n", 2)
    for a in (pos, neg):
        h.assume(a[0] <= a[1])
    mk = lambda: h.sa.Scores(h.array(pos), h.array(neg), nb_easy_pos=1, nb_easy_neg=2, score_class="neg", equal_class="pos")
    t, r = h.real("t"), h.real("r", float_atom=False)
    T, _ = _arg(h, "tt", (2,))
    R, _ = _arg(h, "rr", (2,), float_atom=False)
    return mk, t, r, T, R


def run_history2(h, first, heavy):
    mk, t, r, T, R = _fresh_pair(h)
    ref = mk()
    alone = [(n, q()) for n, q in _queries(h, ref, t, r, T, R, heavy)]   # every query on a pristine object (itself idempotent by nomutation)
    S = mk()
    qs = _queries(h, S, t, r, T, R, heavy)
    n1, q1 = qs[first]
    for j, (n2, q2) in enumerate(qs):
        q1()
        h.check(f"{n2} after {n1} returns what it returns on a fresh object", _eqlists(h, q2(), alone[j][1]))


def run_history3(h):
    mk, t, r, T, R = _fresh_pair(h)
    ref = mk()
    idx = [0, 3, 9, 14, 16, 17]
    alone = {j: _queries(h, ref, t, r, T, R, False)[j][1]() for j in idx}
    S = mk()
    qs = _queries(h, S, t, r, T, R, False)
    for a, b, c in itertools.permutations(idx, 3):
        qs[a][1]()
        qs[b][1]()
        h.check(f"{qs[c][0]} after {qs[a][0]}; {qs[b][0]}", _eqlists(h, qs[c][1](), alone[c]))


def run_cmmetrics(h, shape):
    shape = tuple(shape)
    n = _nprod(shape)
    cells = [h.int(f"m{i}", 1) for i in range(4 * n)]   # entries >= 1: the NaN locus is C04's business, no NaN forks here
    M = h.np.reshape(h.array(cells), shape + (2, 2)) if n else h.np.zeros(shape + (2, 2), dtype=int)
    snap = h.snapshot(M)
    cm = h.sa.ConfusionMatrix(matrix=M, binary=True)
    for name in ("tp", "fn", "fp", "tn", "p", "n", "top", "ton", "pop", "tpr", "fnr", "tnr", "fpr", "ppv", "npv", "fdr", "for_", "topr", "tonr",
                 "accuracy", "error_rate", "tar", "frr", "trr", "far", "acceptance_rate", "rejection_rate"):
        v = getattr(cm, name)()
        h.check(f"ConfusionMatrix.{name}: shape = X", h.shape(v) == shape)
        vc = h.cells(v)
        for i in range(n):
            one = getattr(h.sa.ConfusionMatrix(matrix=h.np.reshape(h.array(cells[4 * i:4 * i + 4]), (2, 2)), binary=True), name)()
            h.check(f"ConfusionMatrix.{name}: element = scalar call", _same(h, vc[i], one))
    for name in ("tpr_ci", "fnr_ci", "tnr_ci", "fpr_ci"):
        v = getattr(cm, name)(alpha=h.const("1/10"))
        h.check(f"ConfusionMatrix.{name}: shape = X + (2,)", h.shape(v) == shape + (2,))
    h.check("metrics do not mutate the matrix", h.unchanged(snap, M) and h.unchanged(snap, cm.matrix))
