"""C14 — bootstrapped metrics/intervals are what the sampler and the CI formula produce (R-ideal; RNG stubs)."""
from .common import CFGS

META = {
    "bounds": {"quick": {"data": "P,N <= 2 symbolic sorted scores; GroupScores with 2 groups", "samplers": "identity, deterministic callable (j-th call drops element j mod n), built-in replacement by_label on RNG stubs",
                         "nb_samples": "1, 2, 3", "metrics": "by name (fnr, tpr, group_fnr, cm matrix) and callables with scalar / vector / matrix output and a symbolic threshold kwarg",
                         "CI methods": "quantile, bc, bca",
                         "dynamic sampling": "Scores / GroupScores with 2+2 scores, size threshold stubbed to 2 and 3 (instead of 100), every stratification, drawn values pinned: RNG call sequence of bootstrap_metric/_ci = that of bootstrap_sample"},
               "thorough": {"data": "P,N <= 3", "nb_samples": "1..4"}},
    "assumptions": ["R-ideal", "samples are captured by a spy around bootstrap_sample (instance attribute), so 'row j = metric of the j-th sample' is checked against the very objects the sampler returned",
                    "reproducibility for a fixed seed is decided in two parts: the code draws randomness only through np.random.* stubs (logged), and a concrete replay with real seeds (auxiliary regression run)"],
}
OPTS = {"quick": {"query_timeout_ms": 30000, "max_paths": 20000, "max_decisions": 3000}, "thorough": {"query_timeout_ms": 120000, "max_paths": 100000, "max_decisions": 5000}}


def items(tier):
    out = []
    for nb in ((1, 3) if tier == "quick" else (1, 2, 3, 4)):
        for metric in ("fnr", "callable_vec", "cm"):
            for sampler in ("identity", "dropper"):
                out.append({"kind": "rows", "nb": nb, "metric": metric, "sampler": sampler})
        out.append({"kind": "rows", "nb": nb, "metric": "fnr", "sampler": "builtin"})
        out.append({"kind": "group_rows", "nb": nb})
    for cls in ("Scores", "GroupScores"):
        out.append({"kind": "dynamic_rows", "cls": cls})
    for method in ("quantile", "bc", "bca"):
        out.append({"kind": "ci", "method": method, "sampler": "identity", "nb": 3})
        out.append({"kind": "ci", "method": method, "sampler": "dropper", "nb": 2 if method == "bca" else 3})
    out.append({"kind": "ci", "method": "quantile", "sampler": "builtin", "nb": 2})
    for method in ("bc", "bca"):
        out.append({"kind": "ci_twice", "method": method})
        out.append({"kind": "ci_nan", "method": method})
    return out


def run(h, kind, **p):
    return globals()["run_" + kind](h, **p)


def _S(h, P=2, N=2, sc="pos", ec="pos"):
    pos, neg = h.reals("p", P), h.reals("n", N)
    for a in (pos, neg):
        for i in range(len(a) - 1):
            h.assume(a[i] <= a[i + 1])
    return h.sa.Scores(h.array(pos), h.array(neg), nb_easy_pos=1, nb_easy_neg=0, score_class=sc, equal_class=ec), pos, neg


def _spy(obj):
    """record every sample the object's bootstrap_sample returns"""
    seen = []
    orig = obj.bootstrap_sample

    def wrapped(config=None, **kw):
        s = orig(config=config) if config is not None else orig(**kw)
        seen.append(s)
        return s

    obj.bootstrap_sample = wrapped
    return seen


def _sampler(h, name):
    calls = [0]
    if name == "identity":
        return lambda src: src
    if name == "dropper":
        def drop(src):
            j = calls[0]
            calls[0] += 1
            pos = src.pos
            k = j % len(pos)
            keep = [i for i in range(len(pos)) if i != k] or [0]
            return h.sa.Scores(pos[keep], src.neg, nb_easy_pos=src.nb_easy_pos, nb_easy_neg=src.nb_easy_neg,
                               score_class=src.score_class, equal_class=src.equal_class, is_sorted=True)
        return drop
    return "replacement"


def _metric(h, name, t):
    if name == "fnr":
        return "fnr", {"threshold": t}, ()
    if name == "callable_vec":
        return (lambda s, threshold, scale: h.np.stack([s.fnr(threshold) * scale, s.fpr(threshold)], axis=0)), {"threshold": t, "scale": h.const("3")}, (2,)
    return (lambda s, threshold: s.cm(threshold).matrix), {"threshold": t}, (2, 2)


def _apply(h, metric, obj, kw):
    f = getattr(type(obj), metric) if isinstance(metric, str) else metric
    return f(obj, **kw)


def _same_cells(h, a, b):
    a, b = h.cells(a), h.cells(b)
    return len(a) == len(b) and h.And([(h.is_nan(x) and h.is_nan(y)) if (h.is_nan(x) or h.is_nan(y)) else h.eq(x, y, 0) for x, y in zip(a, b)])


def run_rows(h, nb, metric, sampler):
    S, pos, neg = _S(h)
    t = h.real("t")
    m, kw, mshape = _metric(h, metric, t)
    strat = "by_label" if sampler == "builtin" else None
    cfg = h.sa.BootstrapConfig(nb_samples=nb, sampling_method=_sampler(h, sampler), stratified_sampling=strat)
    seen = _spy(S)
    res = S.bootstrap_metric(m, config=cfg, **kw)
    h.check("one row per bootstrap sample, rows of the metric's own shape", h.shape(res) == (nb,) + mshape)
    h.check("the sampler was asked for exactly nb_samples samples", len(seen) == nb)
    for j, smp in enumerate(seen):
        h.check("row j is the metric evaluated on the j-th sample the sampler produced (kwargs forwarded)", _same_cells(h, res[j], _apply(h, m, smp, kw)))
    if sampler == "identity":
        h.check("identity sampler: the very same object is measured", all(s is S for s in seen))
    if sampler == "builtin" and h.mode == "sym":
        h.check("randomness is drawn only through the global np.random functions (seedable)", all(not e["fn"].startswith("Generator.") for e in h.rng_log()) and len(h.rng_log()) >= nb)


def _lower_threshold(h, value):
    """SINGLE_PASS_SAMPLE_THRESHOLD (100 scores per class) lowered in every module of the package that holds the name, so
    that the 'dynamic' method reaches its single-pass branch with 2+2 scores; returns the undo list"""
    import sys

    root = h.sa.__name__
    undo = []
    for k, mod in list(sys.modules.items()):
        if mod is not None and (k == root or k.startswith(root + ".")) and hasattr(mod, "SINGLE_PASS_SAMPLE_THRESHOLD"):
            undo.append((mod, mod.SINGLE_PASS_SAMPLE_THRESHOLD))
            mod.SINGLE_PASS_SAMPLE_THRESHOLD = value
    return undo


def run_dynamic_rows(h, cls):
    """built-in 'dynamic' sampling: the replicates of bootstrap_metric / bootstrap_ci are drawn exactly the way
    bootstrap_sample(config) draws a sample of the same object (same sequence of RNG calls, with/without replacement),
    for every stratification the class supports, below and above the single-pass size threshold."""
    pos, neg = h.reals("p", 2), h.reals("n", 2)
    for a in (pos, neg):
        h.assume(a[0] <= a[1])
    t = h.real("t")
    sig = lambda log: [(e["fn"], repr(e["args"].get("replace"))) for e in log]
    for thr in (2, 3):          # 2: both classes reach the threshold (single pass eligible); 3: they do not
        undo = _lower_threshold(h, thr)
        try:
            if cls == "Scores":
                obj = h.sa.Scores(h.array(pos), h.array(neg), is_sorted=True)
                strats = (None, "by_label")
            else:
                obj = h.sa.GroupScores(h.array(pos), h.array(neg), pos_groups=[0, 1], neg_groups=[1, 0], is_sorted=True)
                strats = (None, "by_label", "by_group")
            h.policy(rng_pinned=True)
            for strat in strats:
                cfg = h.sa.BootstrapConfig(nb_samples=1, sampling_method="dynamic", stratified_sampling=strat)
                n0 = len(h.rng_log())
                obj.bootstrap_sample(cfg)
                a = sig(h.rng_log()[n0:])
                n1 = len(h.rng_log())
                obj.bootstrap_metric("fnr", config=cfg, threshold=t)
                b = sig(h.rng_log()[n1:])
                h.check(f"[{cls}, dynamic/{strat}, threshold {thr}] bootstrap_metric draws its replicate with the RNG calls of bootstrap_sample(config)", a == b and len(a) > 0)
                n2 = len(h.rng_log())
                obj.bootstrap_ci("fnr", config=cfg, threshold=t)
                c = sig(h.rng_log()[n2:])
                h.check(f"[{cls}, dynamic/{strat}, threshold {thr}] bootstrap_ci draws its replicate with the RNG calls of bootstrap_sample(config)", a == c)
        finally:
            for mod, v in undo:
                mod.SINGLE_PASS_SAMPLE_THRESHOLD = v


def run_group_rows(h, nb):
    pos, neg = h.reals("p", 2), h.reals("n", 2)
    for a in (pos, neg):
        h.assume(a[0] <= a[1])
    gs = h.sa.GroupScores(h.array(pos), h.array(neg), pos_groups=[0, 1], neg_groups=[1, 0], is_sorted=True)
    t = h.real("t")
    seen = _spy(gs)

    def rot(src):
        return h.sa.GroupScores(src.pos, src.neg, pos_groups=src.pos_groups[::-1], neg_groups=src.neg_groups, group_names=src.groups, is_sorted=True)

    cfg = h.sa.BootstrapConfig(nb_samples=nb, sampling_method=rot)
    res = gs.bootstrap_metric("group_fnr", config=cfg, threshold=t)
    h.check("group-wise metric by name is resolved on the object's own class: shape (nb_samples, G)", h.shape(res) == (nb, 2))
    for j, smp in enumerate(seen):
        h.check("row j = group_fnr of the j-th sample", _same_cells(h, res[j], smp.group_fnr(t)))
    res2 = gs.bootstrap_metric("fnr", config=cfg, threshold=t)
    h.check("inherited metric names still work on GroupScores", h.shape(res2) == (nb,))


def run_ci(h, method, sampler, nb):
    S, pos, neg = _S(h)
    t = h.real("t")
    alpha = h.real("alpha", float_atom=False)
    h.assume(h.And(alpha > 0, alpha < 1))
    m, kw, mshape = _metric(h, "callable_vec" if sampler != "builtin" else "fnr", t)
    strat = "by_label" if sampler == "builtin" else None
    cfg = h.sa.BootstrapConfig(nb_samples=nb, sampling_method=_sampler(h, sampler), stratified_sampling=strat, bootstrap_method=method)
    seen = _spy(S)
    ci = S.bootstrap_ci(m, alpha=alpha, config=cfg, **kw)
    h.check("interval shape = metric shape + (2,)", h.shape(ci) == mshape + (2,))
    h.check("exactly nb_samples samples were drawn for the interval", len(seen) == nb)
    rows = h.np.stack([h.np.asarray(_apply(h, m, s, kw)) for s in seen], axis=0)
    est = _apply(h, m, S, kw)
    want = h.sa.utils.bootstrap_ci(theta=rows, theta_hat=est, alpha=alpha, method=method)
    h.check("bootstrap_ci = documented CI formula applied to the replicates with the metric of the original object as point estimate", _same_cells(h, ci, want))
    if sampler == "identity":
        e = h.cells(est)
        c = h.cells(ci)
        ok = []
        for i, v in enumerate(e):
            for side in (0, 1):
                x = c[2 * i + side]
                ok.append((h.is_nan(x) and h.is_nan(v)) if (h.is_nan(x) or h.is_nan(v)) else h.eq(x, v))
        h.check("identity sampler: the interval collapses to the point estimate", h.And(ok))


def regressions(h):
    """auxiliary concrete run: with a fixed global seed all bootstrap results are reproducible."""
    import numpy as np

    sa = h.sa
    base = np.random.RandomState(5)
    S = sa.Scores(base.normal(1, 1, 40), base.normal(0, 1, 60), nb_easy_pos=7, nb_easy_neg=3)
    G = sa.GroupScores(base.normal(1, 1, 30), base.normal(0, 1, 30), pos_groups=base.randint(0, 3, 30), neg_groups=base.randint(0, 3, 30))
    runs = []
    for rep in range(2):
        out = []
        for method in ("replacement", "single_pass", "dynamic"):
            for strat in (None, "by_label"):
                np.random.seed(1234)
                cfg = sa.BootstrapConfig(nb_samples=5, sampling_method=method, stratified_sampling=strat, bootstrap_method="bca")
                out.append(np.asarray(S.bootstrap_metric("fnr", config=cfg, threshold=0.4)).tolist())
                out.append(np.asarray(S.bootstrap_ci("eer", config=cfg)).tolist())
        np.random.seed(99)
        out.append(np.asarray(G.bootstrap_metric("group_fnr", config=sa.BootstrapConfig(nb_samples=4, stratified_sampling="by_group"), threshold=0.3)).tolist())
        np.random.seed(7)
        out.append(np.asarray(S.bootstrap_metric("tpr", config=sa.BootstrapConfig(nb_samples=3, smoothing=True, sampling_method="replacement"), threshold=0.5)).tolist())
        runs.append(repr(out))
    h.check("[seeded replay] identical results for a fixed global seed", runs[0] == runs[1])


def run_ci_twice(h, method):
    """a sequence of calls on ONE object with the same metric and kwarg names but different values: each interval is
    built from its own replicates and its own point estimate"""
    S, pos, neg = _S(h)
    alpha = h.const("1/5")
    cfg = h.sa.BootstrapConfig(nb_samples=2, sampling_method=_sampler(h, "dropper"), bootstrap_method=method)
    for k, t in enumerate(h.reals("t", 2)):
        seen = _spy(S) if k == 0 else seen
        n0 = len(seen)
        ci = S.bootstrap_ci("fnr", alpha=alpha, config=cfg, threshold=t)
        mine = seen[n0:]
        rows = h.np.stack([h.np.asarray(s.fnr(t)) for s in mine], axis=0)
        want = h.sa.utils.bootstrap_ci(theta=rows, theta_hat=S.fnr(t), alpha=alpha, method=method)
        h.check(f"call {k + 1}: interval = CI formula on this call's replicates with this call's point estimate", _same_cells(h, ci, want))
        rm = S.bootstrap_metric("fnr", config=cfg, threshold=t)
        h.check(f"call {k + 1}: bootstrap_metric rows follow this call's kwargs", _same_cells(h, rm[0], seen[-2].fnr(t)) and _same_cells(h, rm[1], seen[-1].fnr(t)))


def run_ci_nan(h, method):
    """a metric that is NaN on some bootstrap samples: the interval follows the documented formula with NaN replicates ignored"""
    from . import C13

    S, pos, neg = _S(h)
    alpha = h.real("alpha", float_atom=False)
    h.assume(h.And(alpha > 0, alpha < 1))
    t = h.real("t")
    calls = [0]

    def metric(s, threshold):
        calls[0] += 1
        if calls[0] == 2:      # call 1 = shape probe on the original, calls 2.. = samples: the 1st sample is NaN
            return float("nan")
        return s.fnr(threshold)

    cfg = h.sa.BootstrapConfig(nb_samples=3, sampling_method=_sampler(h, "dropper"), bootstrap_method=method)
    seen = _spy(S)
    ci = h.cells(S.bootstrap_ci(metric, alpha=alpha, config=cfg, threshold=t))
    col = [float("nan"), seen[1].fnr(t), seen[2].fnr(t)]      # samples 1 and 2 drop different positives: two distinct finite replicates
    est = S.fnr(t)
    if any(h.is_nan(v) for v in (col[1], col[2], est)):
        return
    lv = C13._oracle_levels(h, method, col, est, alpha)
    fin = [col[1], col[2]]
    wl, wh = C13._q(h, fin, lv[0]), C13._q(h, fin, lv[1])
    if h.is_nan(wl) or h.is_nan(wh) or h.is_nan(ci[0]) or h.is_nan(ci[1]):
        h.check("NaN limits only where the documented formula is undefined", h.is_nan(wl) == h.is_nan(ci[0]) and h.is_nan(wh) == h.is_nan(ci[1]))
        return
    h.check("interval with NaN replicates = documented formula on the finite replicates", h.And(h.eq(ci[0], wl), h.eq(ci[1], wh)))
