"""C17 — invert_pl_function / threshold_at_metric return true solutions of the interpolated metric (R-ideal)."""
from .common import CFGS

META = {
    "bounds": {"quick": {"invert_pl_function": "n <= 4 sample points (x non-decreasing incl. duplicates with equal y), targets () and (2,), all symbolic reals",
                         "threshold_at_metric": "P+N <= 4 scores, metric by name/callable, points None / int 2..3 / array(3)"},
               "thorough": {"invert_pl_function": "n <= 6", "threshold_at_metric": "P+N <= 5"}},
    "assumptions": ["R-ideal: exact real arithmetic (the interpolation la = (t-y_j)/(y_{j+1}-y_j) is not rounded)",
                    "results are compared after ravel(): the no-crossing fallback returns an array of shape (1,1)"],
}
OPTS = {"quick": {"query_timeout_ms": 30000}, "thorough": {"query_timeout_ms": 120000, "max_paths": 100000}}


def items(tier):
    out = []
    ns = [2, 3, 4] if tier == "quick" else [2, 3, 4, 5, 6]
    for n in ns:
        out.append({"kind": "pl", "n": n, "t": "scalar"})
    out.append({"kind": "pl", "n": 3, "t": "(2,)"})
    out.append({"kind": "pl", "n": 1, "t": "scalar"})
    for sc, ec in CFGS:
        for points in ("none", "int2", "int3", "int4", "int6", "array"):   # int k below, equal to and above the number of scores
            out.append({"kind": "tam", "sc": sc, "ec": ec, "P": 2, "N": 2 if tier == "quick" else 3, "points": points, "metric": "topr"})
        out.append({"kind": "tam", "sc": sc, "ec": ec, "P": 2, "N": 1, "points": "none", "metric": "callable"})
    return out


def run(h, kind, **p):
    return run_pl(h, **p) if kind == "pl" else run_tam(h, **p)


def _pl_obligations(h, x, y, t, sol, tag=""):
    """sol: list of returned points (scalars) for target t."""
    n = len(x)
    touch = h.Or([h.eq(yi, t, 0) for yi in y] + [h.Or(h.And(y[j] < t, y[j + 1] > t), h.And(y[j] > t, y[j + 1] < t)) for j in range(n - 1)])
    h.check(tag + "at least one point returned", len(sol) >= 1)
    h.check(tag + "strictly increasing", h.And([h.lt(sol[i], sol[i + 1], 0) for i in range(len(sol) - 1)]))
    h.check(tag + "inside the sampled range", h.And([h.And(h.le(x[0], z), h.le(z, x[-1])) for z in sol]))

    def solves(z):
        segs = []
        for j in range(n - 1):
            on = h.And(x[j] <= z, z <= x[j + 1])
            lin = h.eq((t - y[j]) * (x[j + 1] - x[j]), (y[j + 1] - y[j]) * (z - x[j]))
            segs.append(h.And(on, h.ite(x[j] < x[j + 1], lin, h.eq(y[j], t))))
        segs += [h.And(h.eq(z, x[j], 0), h.eq(y[j], t)) for j in range(n)]
        return h.Or(segs)

    h.check(tag + "crossed/touched target: every returned point solves PL(z) = t", h.Implies(touch, h.And([solves(z) for z in sol])))
    # completeness at isolated crossings/touches ("... whenever the samples cross or touch it"): every segment whose end
    # values lie strictly on either side of t contributes a point of that segment, and every interior sample that equals
    # t while both neighbours differ from t is returned.  Plateaus at t and a touch at the last sample are not demanded.
    for j in range(n - 1):
        strict = h.Or(h.And(y[j] < t, y[j + 1] > t), h.And(y[j] > t, y[j + 1] < t))
        h.check(tag + f"segment {j} strictly crosses the target: one of the returned points lies on it",
                h.Implies(strict, h.Or([h.And(h.le(x[j], z), h.le(z, x[j + 1])) for z in sol])))
    for k in range(1, n - 1):
        iso = h.And(h.eq(y[k], t, 0), h.Not(h.eq(y[k - 1], t, 0)), h.Not(h.eq(y[k + 1], t, 0)))
        h.check(tag + f"interior sample {k} touches/crosses the target in isolation: it is returned",
                h.Implies(iso, h.Or([h.eq(z, x[k], 0) for z in sol])))
    closest = h.Or([h.And(h.eq(sol[0], x[k], 0), h.And([h.le(h.abs(y[k] - t), h.abs(y[i] - t)) for i in range(n)])) for k in range(n)])
    h.check(tag + "otherwise: exactly one point, a sample point of minimal |y - t|", h.Implies(h.Not(touch), h.And(len(sol) == 1, closest)))


def run_pl(h, n, t):
    x, y = h.reals("x", n), h.reals("y", n)
    for i in range(n - 1):
        h.assume(x[i] <= x[i + 1])
        h.assume(h.Implies(h.eq(x[i], x[i + 1], 0), h.eq(y[i], y[i + 1], 0)))
    if t == "scalar":
        tv = h.real("t")
        res = h.sa.utils.invert_pl_function(h.array(x), h.array(y), tv)
        h.check("scalar target gives a bare array (not a list)", not isinstance(res, list))
        _pl_obligations(h, x, y, tv, h.cells(res))
    else:
        ts = h.reals("t", 2)
        res = h.sa.utils.invert_pl_function(h.array(x), h.array(y), h.array(ts))
        h.check("one entry per target", isinstance(res, list) and len(res) == 2)
        for j, tv in enumerate(ts):
            _pl_obligations(h, x, y, tv, h.cells(res[j]), tag=f"[target {j}] ")


def run_tam(h, sc, ec, P, N, points, metric):
    pos, neg = h.reals("p", P), h.reals("n", N)
    for a in (pos, neg):
        for i in range(len(a) - 1):
            h.assume(a[i] <= a[i + 1])
    allv = pos + neg
    h.assume(h.Or([h.Not(h.eq(a, b, 0)) for i, a in enumerate(allv) for b in allv[i + 1:]]))   # >= 2 distinct scores
    S = h.sa.Scores(h.array(pos), h.array(neg), score_class=sc, equal_class=ec)
    tv = h.real("t")
    if metric == "callable":
        m = lambda s, th: s.fnr(th) - s.fpr(th)
    else:
        m = metric
    mf = (lambda th: getattr(S, metric)(th)) if metric != "callable" else (lambda th: S.fnr(th) - S.fpr(th))
    if points == "none":
        res = S.threshold_at_metric(tv, m)
        pts = h.np.sort(h.np.concatenate([h.array(pos), h.array(neg)]))
    elif points.startswith("int"):
        k = int(points[3:])
        res = S.threshold_at_metric(tv, m, points=k)
        lo, hi = h.min(allv), h.max(allv)
        pts = h.array([lo + (hi - lo) * i / (k - 1) for i in range(k)])
    else:
        u = h.reals("u", 3)
        for i in range(2):
            h.assume(u[i] <= u[i + 1])
        pts = h.array(u)
        res = S.threshold_at_metric(tv, m, points=pts)
    want = h.sa.utils.invert_pl_function(pts, mf(pts), tv)
    a, b = h.cells(res), h.cells(want)
    h.check("threshold_at_metric = inversion of the metric sampled at the documented points",
            len(a) == len(b) and h.And([h.eq(p_, q_) for p_, q_ in zip(a, b)]))
    ys = h.cells(mf(pts))
    if not any(h.is_nan(v) for v in ys):
        _pl_obligations(h, h.cells(pts), ys, tv, a, tag="[tam] ")
