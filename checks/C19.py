"""C19 — FraudScores is a faithful, validated genuine/fraud view of Scores (R-exact / R-ideal per delegated query)."""
from .thr import METRICS

META = {
    "bounds": {"quick": {"scores": "genuines/frauds 0..2 each, symbolic reals NOT constrained to [0,1], unsorted with ties", "easy counts": "symbolic >= 0",
                         "queries": "cm, 6 rates, 6 threshold setters (any real target), aliases genuines/frauds, from_labels, label translations"},
               "thorough": {"scores": "0..3 each"}},
    "assumptions": ["kind=validate_fbits: F-bits regime (z3 FloatingPoint doubles, finite, |x| < 1e300) for the range validation of 1-2 scores; all other items R-exact",
                    "the median heuristic only warns; warnings are ignored", "R-ideal for threshold setting"],
}
OPTS = {"quick": {"query_timeout_ms": 30000}, "thorough": {"query_timeout_ms": 120000, "max_paths": 50000}}
TR = {"genuine": "pos", "fraud": "neg"}


def items(tier):
    out = []
    szs = [(0, 0), (1, 0), (0, 1), (1, 1), (2, 1), (2, 2)] if tier == "quick" else [(0, 0), (1, 0), (0, 2), (1, 1), (2, 2), (3, 2), (3, 3)]
    for sc in ("genuine", "fraud"):
        for G, F in szs:
            out.append({"kind": "validate", "sc": sc, "G": G, "F": F})
            out.append({"kind": "queries", "sc": sc, "G": G, "F": F})
        out.append({"kind": "from_labels", "sc": sc, "n": 3})
        for where in ("genuine", "fraud", "both"):
            out.append({"kind": "validate_fbits", "sc": sc, "where": where})
    out.append({"kind": "labels"})
    return out


def run(h, kind, **p):
    return globals()["run_" + kind](h, **p)


def run_validate(h, sc, G, F):
    gen, fra = h.reals("g", G), h.reals("f", F)
    kg, kf = h.int("kg", 0), h.int("kf", 0)
    outside = h.Or([h.Or(x < 0, x > 1) for x in gen + fra])
    FS = h.sa.applications.FraudScores if hasattr(h.sa, "applications") else None
    try:
        FS(genuines=h.array(gen), frauds=h.array(fra), nb_easy_genuines=kg, nb_easy_frauds=kf, score_class=sc)
        raised = False
    except ValueError:
        raised = True
    h.check("construction raises ValueError exactly when some score lies outside [0,1]", outside if raised else h.Not(outside))


def run_validate_fbits(h, sc, where):
    """F-bits: the scores are SYMBOLIC IEEE doubles (sub-normals and values within one ulp of 0 and 1 included): the
    range test of the real constructor is decided bit-precisely, so a rewrite of the test that is equivalent over the
    reals but rounds (|x - 1/2| > 1/2, x*(1-x) < 0, ...) is refuted."""
    h.policy(sort="fork", gather="fork", fp_kernel=True)
    x = h.fp("x")
    gen = [x] if where != "fraud" else []
    fra = [x] if where == "fraud" else ([h.fp("y")] if where == "both" else [])
    outside = h.Or([h.Or(v < 0.0, v > 1.0) for v in gen + fra])
    try:
        h.sa.applications.FraudScores(genuines=h.array(gen), frauds=h.array(fra), score_class=sc)
        raised = False
    except ValueError:
        raised = True
    h.check("[float64] construction raises ValueError exactly when some double lies outside [0,1]", outside if raised else h.Not(outside))


def _both(h, sc, G, F, sorted_=False):
    gen, fra = h.reals("g", G), h.reals("f", F)
    for x in gen + fra:
        h.assume(h.And(x >= 0, x <= 1))
    if sorted_:
        for a in (gen, fra):
            for i in range(len(a) - 1):
                h.assume(a[i] <= a[i + 1])
    kg, kf = h.int("kg", 0, 6), h.int("kf", 0, 6)
    fs = h.sa.applications.FraudScores(genuines=h.array(gen), frauds=h.array(fra), nb_easy_genuines=kg, nb_easy_frauds=kf, score_class=sc)
    ref = h.sa.Scores(h.array(gen), h.array(fra), nb_easy_pos=kg, nb_easy_neg=kf, score_class=TR[sc], equal_class="pos")
    return fs, ref, gen, fra


def _same(h, a, b):
    a, b = h.cells(a), h.cells(b)
    if len(a) != len(b):
        return False
    out = []
    for x, y in zip(a, b):
        if h.is_nan(x) or h.is_nan(y):
            out.append(h.is_nan(x) and h.is_nan(y))
        else:
            out.append(h.eq(x, y, 0))
    return h.And(out)


def run_queries(h, sc, G, F):
    fs, ref, gen, fra = _both(h, sc, G, F, sorted_=True)
    h.policy(gather="ite", sort="ite")      # both objects run the same code: results are compared as terms, no index forks needed
    h.check("genuines aliases pos, frauds aliases neg", fs.genuines is fs.pos and fs.frauds is fs.neg)
    h.check("stored scores equal those of the reference Scores", h.And(_same(h, fs.pos, ref.pos), _same(h, fs.neg, ref.neg)))
    h.check("configuration translated", fs.score_class == ref.score_class and fs.equal_class == ref.equal_class)
    h.check("easy counts passed through", h.And(h.eq(fs.nb_easy_pos, ref.nb_easy_pos), h.eq(fs.nb_easy_neg, ref.nb_easy_neg)))
    t = h.real("t")
    h.check("cm identical", _same(h, fs.cm(t).matrix, ref.cm(t).matrix))
    for m in ("tpr", "fnr", "tnr", "fpr", "topr", "tonr", "tar", "frr", "trr", "far", "acceptance_rate", "rejection_rate"):
        h.check(f"{m} identical", _same(h, getattr(fs, m)(t), getattr(ref, m)(t)))
    r = h.real("r", float_atom=False)
    for m in METRICS:
        need = G if METRICS[m][0] == "pos" else F if METRICS[m][0] == "neg" else G + F
        name = f"threshold_at_{m}"
        if need == 0:
            for obj in (fs, ref):
                try:
                    getattr(obj, name)(r)
                    h.fail(f"{name} with an empty relevant class must raise ValueError")
                except ValueError:
                    h.check(f"{name} with an empty relevant class raises ValueError", True)
            continue
        h.check(f"{name} identical", _same(h, getattr(fs, name)(r), getattr(ref, name)(r)))
    sw = fs.swap()
    h.check("swap() of the view equals swap() of the reference", _same(h, sw.cm(t).matrix, ref.swap().cm(t).matrix))


def run_from_labels(h, sc, n):
    labels = h.ints("l", n, 0, 2)
    scores = h.reals("s", n)
    for x in scores:
        h.assume(h.And(x >= 0, x <= 1))
    gl = h.int("genuine_label", 0, 2)
    fs = h.sa.applications.FraudScores.from_labels(h.array(labels), h.array(scores), genuine_label=gl, score_class=sc)
    t = h.real("t")
    ref = h.sa.Scores.from_labels(h.array(labels), h.array(scores), pos_label=gl, score_class=TR[sc], equal_class="pos")
    h.check("from_labels: genuines are exactly the samples labelled genuine_label (cm equals reference split)", _same(h, fs.cm(t).matrix, ref.cm(t).matrix))
    h.check("from_labels: class sizes", h.And(h.eq(len(h.cells(fs.genuines)), h.count([h.eq(l, gl) for l in labels])),
                                              h.eq(len(h.cells(fs.frauds)), h.count([h.Not(h.eq(l, gl)) for l in labels]))))


def run_labels(h):
    app = h.sa.applications
    B = h.sa.BinaryLabel
    D = app.DocLabel
    for d in ("genuine", "fraud", D.pos, D.neg):
        b = app.doc_to_binary_label(d)
        h.check("doc -> binary -> doc is the identity", app.binary_to_doc_label(b) == D(d))
    for b in ("pos", "neg", B.pos, B.neg):
        d = app.binary_to_doc_label(b)
        h.check("binary -> doc -> binary is the identity", app.doc_to_binary_label(d).value == B(b).value)
    h.check("genuine <-> pos, fraud <-> neg", app.doc_to_binary_label("genuine").value == "pos" and app.doc_to_binary_label("fraud").value == "neg")
