"""C04 — binary metric algebra, NaN rule, normal-approximation CIs (R-ideal; Phi^-1 and sqrt axiomatised)."""
META = {
    "bounds": {"entries": "all four cells symbolic: Int >= 0 (unbounded) and, separately, Real >= 0", "leading shapes": "(), (2,), (1,2), (0,)",
               "alpha": "two symbolic reals in (0,1)"},
    "assumptions": ["R-ideal: exact real arithmetic, float rounding outside the claim",
                    "isf(alpha/2) is an uninterpreted strictly decreasing function with isf(1/2)=0 (numeric quality of SciPy's quantile outside the claim)",
                    "sqrt(x) is the unique y>=0 with y*y=x"],
}
OPTS = {"quick": {"query_timeout_ms": 30000}, "thorough": {"query_timeout_ms": 120000}}

RATES = {  # name -> (numerator cells, denominator cells) as index lists into (tp, fn, fp, tn)
    "tpr": ([0], [0, 1]), "fnr": ([1], [0, 1]), "tnr": ([3], [2, 3]), "fpr": ([2], [2, 3]),
    "ppv": ([0], [0, 2]), "npv": ([3], [3, 1]), "fdr": ([2], [0, 2]), "for_": ([1], [3, 1]),
    "topr": ([0, 2], [0, 1, 2, 3]), "tonr": ([1, 3], [0, 1, 2, 3]),
    "accuracy": ([0, 3], [0, 1, 2, 3]), "error_rate": ([1, 2], [0, 1, 2, 3]),
}
COMPLEMENTS = [("tpr", "fnr"), ("tnr", "fpr"), ("ppv", "fdr"), ("npv", "for_"), ("topr", "tonr"), ("accuracy", "error_rate")]
ALIASES = {"tar": "tpr", "frr": "fnr", "trr": "tnr", "far": "fpr", "acceptance_rate": "topr", "rejection_rate": "tonr"}
CI = {"tpr_ci": "tpr", "fnr_ci": "fnr", "tnr_ci": "tnr", "fpr_ci": "fpr"}
CI_ALIASES = {"tar_ci": "tpr_ci", "frr_ci": "fnr_ci", "trr_ci": "tnr_ci", "far_ci": "fpr_ci"}
MIRROR = [("fnr_ci", "tpr_ci"), ("fpr_ci", "tnr_ci")]


def items(tier):
    out = []
    for dom in ("int", "real"):
        for shape in ("()", "(2,)", "(1,2)", "(0,)"):
            out.append({"kind": "algebra", "dom": dom, "shape": shape, "via": "metrics"})
        out.append({"kind": "algebra", "dom": dom, "shape": "()", "via": "cm"})
        out.append({"kind": "algebra", "dom": dom, "shape": "(2,)", "via": "cm"})
        for ci in CI:
            out.append({"kind": "ci", "dom": dom, "ci": ci, "shape": "()"})
        out.append({"kind": "ci", "dom": dom, "ci": "tpr_ci", "shape": "(2,)"})
        for a, b in MIRROR:
            out.append({"kind": "mirror", "dom": dom, "a": a, "b": b})
    return out


def _matrix(h, dom, shape):
    n = {"()": 1, "(2,)": 2, "(1,2)": 2, "(0,)": 0}[shape]
    mk = (lambda nm: h.int(nm, 0)) if dom == "int" else (lambda nm: h.real(nm))
    ms = []
    for j in range(n):
        cells = [mk(f"m{j}_{k}") for k in range(4)]
        if dom == "real":
            for c in cells:
                h.assume(c >= 0)
        ms.append(cells)
    nested = [[[c[0], c[1]], [c[2], c[3]]] for c in ms]
    if shape == "()":
        arr = h.np.asarray(nested[0])
    elif shape == "(2,)":
        arr = h.np.asarray(nested)
    elif shape == "(1,2)":
        arr = h.np.asarray([nested])
    else:
        arr = h.np.zeros((0, 2, 2), dtype=int if dom == "int" else float)
    lead = {"()": (), "(2,)": (2,), "(1,2)": (1, 2), "(0,)": (0,)}[shape]
    return arr, ms, lead


def run(h, kind, **p):
    return {"algebra": run_algebra, "ci": run_ci, "mirror": run_mirror}[kind](h, **p)


def _call(h, via, arr, name, *args):
    if via == "metrics":
        return getattr(h.sa.metrics, name)(arr, *args)
    cm = h.sa.ConfusionMatrix(matrix=arr, binary=True)
    if name in ("accuracy", "error_rate", "pop"):
        return getattr(cm, name)()
    return getattr(cm, name)(*args)


def run_algebra(h, dom, shape, via):
    if dom == "int":
        h.track_int64()
    arr, ms, lead = _matrix(h, dom, shape)
    vals = {}
    for name in list(RATES) + list(ALIASES) + ["p", "n", "top", "ton", "pop", "tp", "fn", "fp", "tn"]:
        r = _call(h, via, arr, name)
        h.check(f"{name}: shape = leading shape", h.shape(r) == lead)
        if lead == ():
            h.check(f"{name}: scalar input gives a scalar, not an array", h.np.isscalar(r) or h.shape(r) == ())
        vals[name] = h.cells(r)
    for j, c in enumerate(ms):
        g = lambda nm: vals[nm][j]
        tot = h.sum(c)
        h.check("basic counts", h.And(h.eq(g("tp"), c[0]), h.eq(g("fn"), c[1]), h.eq(g("fp"), c[2]), h.eq(g("tn"), c[3])))
        h.check("P+N = TOP+TON = POP", h.And(h.eq(g("p") + g("n"), tot), h.eq(g("top") + g("ton"), tot), h.eq(g("pop"), tot),
                                               h.eq(g("p"), c[0] + c[1]), h.eq(g("n"), c[2] + c[3]), h.eq(g("top"), c[0] + c[2]), h.eq(g("ton"), c[1] + c[3])))
        for name, (num, den) in RATES.items():
            v = g(name)
            d = h.sum([c[k] for k in den])
            nu = h.sum([c[k] for k in num])
            if h.is_nan(v):
                h.check(f"{name}: NaN only if denominator is 0", h.eq(d, 0))
            else:
                h.check(f"{name}: defined only if denominator non-zero, equals num/den, in [0,1]",
                        h.And(h.Not(h.eq(d, 0)), h.eq(v * d, nu), h.le(0, v), h.le(v, 1)))
        for a, b in COMPLEMENTS:
            va, vb = g(a), g(b)
            if h.is_nan(va) or h.is_nan(vb):
                h.check(f"{a}/{b}: NaN together", h.is_nan(va) and h.is_nan(vb))
            else:
                h.check(f"{a}+{b} = 1", h.eq(va + vb, 1))
        for al, base in ALIASES.items():
            va, vb = g(al), g(base)
            if h.is_nan(va) or h.is_nan(vb):
                h.check(f"alias {al}", h.is_nan(va) and h.is_nan(vb))
            else:
                h.check(f"alias {al}", h.eq(va, vb))
    if dom == "int":
        h.check_int64("integer intermediates fit int64 for counts up to 2^40 (NumPy integers wrap silently)", _small(h, ms))


def _alpha(h, name):
    a = h.real(name, float_atom=False)
    h.assume(h.And(a > 0, a < 1))
    return a


BIG = 2 ** 40   # "moderate" counts: integer intermediates of the code must stay inside int64 for all cells <= 2^40


def _small(h, ms):
    return h.And([c <= BIG for cs in ms for c in cs])


def run_ci(h, dom, ci, shape):
    if dom == "int":
        h.track_int64()
    arr, ms, lead = _matrix(h, dom, shape)
    a1, a2 = _alpha(h, "alpha"), _alpha(h, "alpha2")
    h.assume(a1 <= a2)
    r1 = getattr(h.sa.metrics, ci)(arr, a1)
    r2 = getattr(h.sa.metrics, ci)(arr, a2)
    rc = getattr(h.sa.ConfusionMatrix(matrix=arr, binary=True), ci)(alpha=a1)
    al = [k for k, v in CI_ALIASES.items() if v == ci][0]
    ra = getattr(h.sa.metrics, al)(arr, a1)
    h.check("ci shape = leading shape + (2,)", h.shape(r1) == lead + (2,) and h.shape(rc) == lead + (2,) and h.shape(ra) == lead + (2,))
    rate = h.cells(getattr(h.sa.metrics, CI[ci])(arr))
    c1, c2, cc, ca = h.cells(r1), h.cells(r2), h.cells(rc), h.cells(ra)
    z1 = h.stats.norm.isf(a1 / 2)
    for j, c in enumerate(ms):
        num, den = RATES[CI[ci]]
        n = h.sum([c[k] for k in den])
        lo, hi, lo2, hi2 = c1[2 * j], c1[2 * j + 1], c2[2 * j], c2[2 * j + 1]
        p = rate[j]
        if h.is_nan(p):
            h.check("ci NaN exactly when the rate is NaN", h.is_nan(lo) and h.is_nan(hi) and h.is_nan(lo2) and h.is_nan(hi2))
            h.check("wrapper/alias NaN too", h.is_nan(cc[2 * j]) and h.is_nan(ca[2 * j]))
            continue
        h.check("ci defined when the rate is", not (h.is_nan(lo) or h.is_nan(hi) or h.is_nan(lo2) or h.is_nan(hi2)))
        d = (hi - lo) / 2
        h.check("centred on the rate", h.eq((lo + hi) / 2, p))
        h.check("half-width >= 0 and d^2 = z^2 p(1-p)/n", h.And(h.le(0, d), h.eq(d * d * n, z1 * z1 * p * (1 - p))))
        h.check("nested in alpha", h.And(h.le(lo, lo2), h.le(hi2, hi)))
        h.check("ConfusionMatrix wrapper and alias agree", h.And(h.eq(cc[2 * j], lo), h.eq(cc[2 * j + 1], hi), h.eq(ca[2 * j], lo), h.eq(ca[2 * j + 1], hi)))
    if dom == "int":
        h.check_int64("integer intermediates fit int64 for counts up to 2^40 (NumPy integers wrap silently)", _small(h, ms))


def run_mirror(h, dom, a, b):
    arr, ms, lead = _matrix(h, dom, "()")
    al = _alpha(h, "alpha")
    ra = h.cells(getattr(h.sa.metrics, a)(arr, al))
    rb = h.cells(getattr(h.sa.metrics, b)(arr, al))
    if h.is_nan(ra[0]) or h.is_nan(rb[0]):
        h.check("mirrored intervals NaN together", all(h.is_nan(x) for x in ra + rb))
        return
    h.check(f"{a} = 1 - reversed({b})", h.And(h.eq(ra[0], 1 - rb[1]), h.eq(ra[1], 1 - rb[0])))
