"""C08 — symmetries: class swap, direction reversal, increasing affine maps (R-exact for matrices, R-ideal for thresholds)."""
from .common import CFGS, oracle_cm
from .thr import METRICS

META = {
    "bounds": {"quick": {"matrices": "P,N in 0..3 unsorted with ties, symbolic easy counts, symbolic threshold", "thresholds": "relevant class <= 3 (sorted, ties), any real target, method linear",
                         "affine": "a in {1/2, 2, 3}, b symbolic"},
               "thorough": {"matrices": "P,N in 0..5", "thresholds": "relevant class <= 5", "affine": "as quick"}},
    "assumptions": ["R-exact for confusion matrices; R-ideal for thresholds (exact float equivariance, e.g. rounding of 1.0 - r, outside the claim)",
                    "nextafter model: one-step functions, symmetric under negation; under affine maps a sentinel (one step outside the score range) is only required to map to the corresponding sentinel",
                    "EER / AUC invariance are discharged in C06 / C07 on the same transformations"],
}
OPTS = {"quick": {"query_timeout_ms": 30000}, "thorough": {"query_timeout_ms": 120000, "max_paths": 50000}}
OTHER = {"pos": "neg", "neg": "pos"}


def items(tier):
    out = []
    szs = [(0, 0), (1, 0), (0, 1), (2, 1), (3, 3)] if tier == "quick" else [(0, 0), (1, 0), (0, 2), (2, 1), (3, 3), (5, 4), (5, 5)]
    tsz = [1, 2, 3] if tier == "quick" else [1, 2, 3, 4, 5]
    for sc, ec in CFGS:
        for P, N in szs:
            out.append({"kind": "swap", "sc": sc, "ec": ec, "P": P, "N": N})
            out.append({"kind": "negate_cm", "sc": sc, "ec": ec, "P": P, "N": N})
        for a in ("1/2", "2", "3"):
            out.append({"kind": "affine_cm", "sc": sc, "ec": ec, "P": 2, "N": 2, "a": a})
        for metric in METRICS:
            for n in tsz:
                P, N = (n, 1) if METRICS[metric][0] == "pos" else (1, n) if METRICS[metric][0] == "neg" else ((n + 1) // 2, n // 2)
                out.append({"kind": "negate_thr", "sc": sc, "ec": ec, "metric": metric, "P": P, "N": N})
            for a in ("1/2", "3"):
                P, N = (2, 1) if METRICS[metric][0] == "pos" else (1, 2) if METRICS[metric][0] == "neg" else (2, 1)
                out.append({"kind": "affine_thr", "sc": sc, "ec": ec, "metric": metric, "P": P, "N": N, "a": a})
    # GroupScores.swap(): the group-aware variant of the class swap (harness shared with C12)
    for sc, ec in CFGS[:2] if tier == "quick" else CFGS:
        out.append({"kind": "group_swap", "sc": sc, "ec": ec, "P": 2, "N": 2 if tier == "thorough" else 1, "G": 2})
    return out


def run_group_swap(h, sc, ec, P, N, G):
    from . import C12

    return C12.run_structure(h, sc, ec, P, N, G)


def run(h, kind, **p):
    return globals()["run_" + kind](h, **p)


def _unsorted(h, P, N):
    return h.reals("p", P), h.reals("n", N)


def _sorted(h, P, N):
    pos, neg = h.reals("p", P), h.reals("n", N)
    for a in (pos, neg):
        for i in range(len(a) - 1):
            h.assume(a[i] <= a[i + 1])
    return pos, neg


def run_swap(h, sc, ec, P, N):
    pos, neg = _unsorted(h, P, N)
    kp, kn = h.int("kp", 0), h.int("kn", 0)
    S = h.sa.Scores(h.array(pos), h.array(neg), nb_easy_pos=kp, nb_easy_neg=kn, score_class=sc, equal_class=ec)
    W = S.swap()
    t = h.real("t")
    a, b = h.cells(S.cm(t).matrix), h.cells(W.cm(t).matrix)
    h.check("swap(): TP<->TN and FN<->FP at every threshold", h.And(h.eq(a[0], b[3]), h.eq(a[1], b[2]), h.eq(a[2], b[1]), h.eq(a[3], b[0])))
    for m1, m2 in (("fpr", "fnr"), ("tpr", "tnr"), ("topr", "tonr"), ("fnr", "fpr"), ("tnr", "tpr"), ("tonr", "topr")):
        v1, v2 = getattr(S, m1)(t), getattr(W, m2)(t)
        if h.is_nan(v1) or h.is_nan(v2):
            h.check(f"{m1}(S) = {m2}(S.swap()) (NaN together)", h.is_nan(v1) and h.is_nan(v2))
        else:
            h.check(f"{m1}(S) = {m2}(S.swap())", h.eq(v1, v2))
    h.check("swap() twice restores the object's data",
            h.And([h.eq(x, y, 0) for x, y in zip(h.cells(W.swap().pos) + h.cells(W.swap().neg), h.cells(S.pos) + h.cells(S.neg))]))
    WW = W.swap()
    h.check("swap() twice restores configuration", WW.score_class == S.score_class and WW.equal_class == S.equal_class)
    h.check("swap() twice restores easy counts", h.And(h.eq(WW.nb_easy_pos, kp), h.eq(WW.nb_easy_neg, kn)))


def run_negate_cm(h, sc, ec, P, N):
    pos, neg = _unsorted(h, P, N)
    kp, kn = h.int("kp", 0), h.int("kn", 0)
    S = h.sa.Scores(h.array(pos), h.array(neg), nb_easy_pos=kp, nb_easy_neg=kn, score_class=sc, equal_class=ec)
    R = h.sa.Scores(h.array([-x for x in pos]), h.array([-x for x in neg]), nb_easy_pos=kp, nb_easy_neg=kn, score_class=OTHER[sc], equal_class=ec)
    t = h.real("t")
    a, b = h.cells(S.cm(t).matrix), h.cells(R.cm(-t).matrix)
    h.check("negating scores and flipping score_class leaves cm unchanged at the negated threshold", h.And([h.eq(x, y) for x, y in zip(a, b)]))


def run_affine_cm(h, sc, ec, P, N, a):
    pos, neg = _unsorted(h, P, N)
    kp, kn = h.int("kp", 0), h.int("kn", 0)
    aa, b = h.const(a), h.real("b", float_atom=False)
    S = h.sa.Scores(h.array(pos), h.array(neg), nb_easy_pos=kp, nb_easy_neg=kn, score_class=sc, equal_class=ec)
    A = h.sa.Scores(h.array([aa * x + b for x in pos]), h.array([aa * x + b for x in neg]), nb_easy_pos=kp, nb_easy_neg=kn, score_class=sc, equal_class=ec)
    t = h.real("t")
    x, y = h.cells(S.cm(t).matrix), h.cells(A.cm(aa * t + b).matrix)
    h.check("increasing affine map leaves cm (hence all rates) unchanged at the mapped threshold", h.And([h.eq(u, v) for u, v in zip(x, y)]))


def _thr_setup(h, sc, ec, metric, P, N):
    pos, neg = _sorted(h, P, N)
    h.policy(gather="fork", sort="fork" if METRICS[metric][0] == "all" else "ite")
    return pos, neg


def run_negate_thr(h, sc, ec, metric, P, N):
    pos, neg = _thr_setup(h, sc, ec, metric, P, N)
    kp, kn = 1, 2
    S = h.sa.Scores(h.array(pos), h.array(neg), nb_easy_pos=kp, nb_easy_neg=kn, score_class=sc, equal_class=ec)
    R = h.sa.Scores(h.array([-x for x in reversed(pos)]), h.array([-x for x in reversed(neg)]), nb_easy_pos=kp, nb_easy_neg=kn,
                    score_class=OTHER[sc], equal_class=ec)
    r = h.real("r", float_atom=False)
    t1 = getattr(S, f"threshold_at_{metric}")(r)
    t2 = getattr(R, f"threshold_at_{metric}")(r)
    h.check(f"threshold_at_{metric} of the negated scores is the negated threshold (up to one float step)", h.near(t2, -t1))


def run_affine_thr(h, sc, ec, metric, P, N, a):
    pos, neg = _thr_setup(h, sc, ec, metric, P, N)
    kp, kn = 2, 1
    aa, b = h.const(a), h.real("b", float_atom=False)
    S = h.sa.Scores(h.array(pos), h.array(neg), nb_easy_pos=kp, nb_easy_neg=kn, score_class=sc, equal_class=ec)
    A = h.sa.Scores(h.array([aa * x + b for x in pos]), h.array([aa * x + b for x in neg]), nb_easy_pos=kp, nb_easy_neg=kn, score_class=sc, equal_class=ec)
    r = h.real("r", float_atom=False)
    t1 = getattr(S, f"threshold_at_{metric}")(r)
    t2 = getattr(A, f"threshold_at_{metric}")(r)
    rel = pos if METRICS[metric][0] == "pos" else neg if METRICS[metric][0] == "neg" else pos + neg
    lo, hi = h.min(rel), h.max(rel)
    inf = float("inf")
    s_lo1, s_hi1 = h.np.nextafter(lo, -inf), h.np.nextafter(hi, inf)
    s_lo2, s_hi2 = h.np.nextafter(aa * lo + b, -inf), h.np.nextafter(aa * hi + b, inf)
    h.check(f"threshold_at_{metric}(a*s+b) = a*threshold(s)+b (sentinels map to sentinels)",
            h.Or(h.eq(t2, aa * t1 + b), h.And(h.eq(t1, s_lo1, 0), h.eq(t2, s_lo2, 0)), h.And(h.eq(t1, s_hi1, 0), h.eq(t2, s_hi2, 0))))
