"""C01 — Scores.cm(threshold) equals counting by the documented decision rule (R-exact)."""
from .common import CFGS, accepted, oracle_cm

META = {
    "functions": ["scores.Scores.__init__", "scores.Scores.cm", "cm.ConfusionMatrix.__init__", "metrics.tpr/fnr/tnr/fpr/topr/tonr",
                  "scores.Scores.from_labels", "scores.pointwise_cm"],
    "bounds": {
        "quick": {"P,N": "0..4 scored samples per class (unsorted, ties allowed)", "easy counts": "symbolic Int >= 0",
                  "thresholds": "symbolic real, +inf, -inf, shapes (), (2,), (1,2)", "pointwise_cm": "3 samples, labels in {0,1,2}, symbolic pos_label"},
        "thorough": {"P,N": "0..8", "easy counts": "symbolic Int >= 0", "thresholds": "as quick plus (2,1,2)", "pointwise_cm": "up to 5 samples"},
    },
    "assumptions": ["R-exact regime: the code only compares, counts and adds integers, so reals are exact for finite floats",
                    "NaN scores excluded (as in the property)"],
}
OPTS = {"quick": {"query_timeout_ms": 20000}, "thorough": {"query_timeout_ms": 120000}}


def items(tier):
    out = []
    sizes = [(0, 0), (1, 0), (0, 2), (1, 1), (2, 3), (4, 4)] if tier == "quick" else \
        [(0, 0), (1, 0), (0, 1), (1, 1), (2, 2), (3, 5), (5, 3), (6, 6), (8, 8)]
    for sc, ec in CFGS:
        for P, N in sizes:
            out.append({"kind": "cm", "sc": sc, "ec": ec, "P": P, "N": N, "thr": "scalar"})
        for thr in (["+inf", "-inf", "(2,)", "(1,2)"] if tier == "quick" else ["+inf", "-inf", "(2,)", "(1,2)", "(2,1,2)"]):
            out.append({"kind": "cm", "sc": sc, "ec": ec, "P": 2, "N": 2, "thr": thr})
        out.append({"kind": "rates", "sc": sc, "ec": ec, "P": 2, "N": 2})
        out.append({"kind": "rates", "sc": sc, "ec": ec, "P": 0, "N": 1})
        out.append({"kind": "rates", "sc": sc, "ec": ec, "P": 1, "N": 0})
        for n in ([3] if tier == "quick" else [2, 4, 5]):
            out.append({"kind": "pointwise", "sc": sc, "ec": ec, "n": n})
        out.append({"kind": "sortlemma", "sc": sc, "ec": ec, "P": 3 if tier == "quick" else 5, "N": 2})
    return out


def _thresholds(h, thr):
    inf = float("inf")
    if thr == "scalar":
        t = h.real("t")
        return t, [t], ()
    if thr == "+inf":
        return inf, [inf], ()
    if thr == "-inf":
        return -inf, [-inf], ()
    if thr == "(2,)":
        ts = h.reals("t", 2)
        return h.array(ts), ts, (2,)
    if thr == "(1,2)":
        ts = h.reals("t", 2)
        return h.np.asarray([ts]), ts, (1, 2)
    if thr == "(2,1,2)":
        ts = h.reals("t", 4)
        return h.np.asarray([[ts[0:2]], [ts[2:4]]]), ts, (2, 1, 2)
    raise ValueError(thr)


def run(h, kind, sc, ec, **p):
    if kind == "cm":
        return run_cm(h, sc, ec, **p)
    if kind == "rates":
        return run_rates(h, sc, ec, **p)
    if kind == "pointwise":
        return run_pointwise(h, sc, ec, **p)
    if kind == "sortlemma":
        return run_sortlemma(h, sc, ec, **p)
    raise ValueError(kind)


def run_cm(h, sc, ec, P, N, thr):
    pos, neg = h.reals("p", P), h.reals("n", N)
    kp, kn = h.int("kp", 0), h.int("kn", 0)
    S = h.sa.Scores(h.array(pos), h.array(neg), nb_easy_pos=kp, nb_easy_neg=kn, score_class=sc, equal_class=ec)
    T, ts, shape = _thresholds(h, thr)
    cm = S.cm(T)
    m = cm.matrix
    h.check("matrix shape = threshold shape + (2,2)", h.shape(m) == tuple(shape) + (2, 2))
    cells = h.cells(m)
    for j, t in enumerate(ts):
        tp, fn, fp, tn = oracle_cm(h, pos, neg, kp, kn, t, sc, ec)
        g = cells[4 * j:4 * j + 4]
        h.check("cells equal counting by the documented rule",
                h.And(h.eq(g[0], tp), h.eq(g[1], fn), h.eq(g[2], fp), h.eq(g[3], tn)))
        h.check("TP+FN and FP+TN independent of threshold", h.And(h.eq(g[0] + g[1], P + kp), h.eq(g[2] + g[3], N + kn)))
    h.check("binary flag", cm.binary is True)
    # the same query again on the same object (equal threshold array, fresh array object): results must not drift
    T2, ts2, _ = (h.np.asarray(h.cells(T)).reshape(shape) if shape else T), ts, shape
    cells2 = h.cells(S.cm(T2).matrix)
    for j, t in enumerate(ts):
        tp, fn, fp, tn = oracle_cm(h, pos, neg, kp, kn, t, sc, ec)
        g = cells2[4 * j:4 * j + 4]
        h.check("repeated call with an equal threshold array: cells still equal counting", h.And(h.eq(g[0], tp), h.eq(g[1], fn), h.eq(g[2], fp), h.eq(g[3], tn)))


def run_rates(h, sc, ec, P, N):
    pos, neg = h.reals("p", P), h.reals("n", N)
    kp, kn = h.int("kp", 0, 50), h.int("kn", 0, 50)
    S = h.sa.Scores(h.array(pos), h.array(neg), nb_easy_pos=kp, nb_easy_neg=kn, score_class=sc, equal_class=ec)
    t = h.real("t")
    tp, fn, fp, tn = oracle_cm(h, pos, neg, kp, kn, t, sc, ec)
    spec = {"tpr": (tp, tp + fn), "fnr": (fn, tp + fn), "tnr": (tn, fp + tn), "fpr": (fp, fp + tn),
            "topr": (tp + fp, tp + fn + fp + tn), "tonr": (fn + tn, tp + fn + fp + tn)}
    alias = {"tpr": "tar", "fnr": "frr", "tnr": "trr", "fpr": "far", "topr": "acceptance_rate", "tonr": "rejection_rate"}
    for name, (num, den) in spec.items():
        v = getattr(S, name)(t)
        if h.is_nan(v):
            h.check(f"{name} is NaN only when its population is empty", h.eq(den, 0))
        else:
            h.check(f"{name} = count/total", h.And(h.Not(h.eq(den, 0)), h.eq(v * den, num)))
        va = getattr(S, alias[name])(t)
        if h.is_nan(v) or h.is_nan(va):
            h.check(f"{alias[name]} alias", h.is_nan(v) and h.is_nan(va))
        else:
            h.check(f"{alias[name]} alias", h.eq(v, va))


def run_pointwise(h, sc, ec, n):
    labels = h.ints("l", n, 0, 2)
    scores = h.reals("s", n)
    pl = h.int("pos_label", 0, 2)
    t2 = h.reals("t", 2)
    T = h.array(t2)
    pw = h.sa.pointwise_cm(h.array(labels), h.array(scores), T, pos_label=pl, score_class=sc, equal_class=ec)
    h.check("pointwise shape", h.shape(pw) == (n, 2, 2, 2))
    S = h.sa.Scores.from_labels(h.array(labels), h.array(scores), pos_label=pl, score_class=sc, equal_class=ec)
    m = h.cells(S.cm(T).matrix)
    tot = h.cells(h.np.sum(pw.astype(int), axis=0))
    h.check("sum over samples of pointwise_cm = cm", h.And([h.eq(a, b) for a, b in zip(tot, m)]))
    # and both equal direct counting on the labelled data
    for j, t in enumerate(t2):
        tp = h.count([h.And(h.eq(l, pl), accepted(h, sc, ec, s, t)) for l, s in zip(labels, scores)])
        fn = h.count([h.And(h.eq(l, pl), h.Not(accepted(h, sc, ec, s, t))) for l, s in zip(labels, scores)])
        fp = h.count([h.And(h.Not(h.eq(l, pl)), accepted(h, sc, ec, s, t)) for l, s in zip(labels, scores)])
        tn = h.count([h.And(h.Not(h.eq(l, pl)), h.Not(accepted(h, sc, ec, s, t))) for l, s in zip(labels, scores)])
        g = m[4 * j:4 * j + 4]
        h.check("from_labels cm = counting on labelled data", h.And(h.eq(g[0], tp), h.eq(g[1], fn), h.eq(g[2], fp), h.eq(g[3], tn)))
    # each sample sits in exactly one cell, and it is the right one
    pc = h.cells(pw.astype(int))
    for i in range(n):
        for j, t in enumerate(t2):
            g = pc[(i * 2 + j) * 4:(i * 2 + j) * 4 + 4]
            isp = h.eq(labels[i], pl)
            acc = accepted(h, sc, ec, scores[i], t)
            want = [h.ite(h.And(isp, acc), 1, 0), h.ite(h.And(isp, h.Not(acc)), 1, 0),
                    h.ite(h.And(h.Not(isp), acc), 1, 0), h.ite(h.And(h.Not(isp), h.Not(acc)), 1, 0)]
            h.check("pointwise membership", h.And([h.eq(a, b) for a, b in zip(g, want)]))


def run_sortlemma(h, sc, ec, P, N):
    """L-sort: the constructor stores ascending permutations of its inputs (used by other properties)."""
    pos, neg = h.reals("p", P), h.reals("n", N)
    S = h.sa.Scores(h.array(pos), h.array(neg), score_class=sc, equal_class=ec)
    for name, src, got in (("pos", pos, h.cells(S.pos)), ("neg", neg, h.cells(S.neg))):
        h.check(f"{name} stored ascending", h.And([h.le(got[i], got[i + 1], 0) for i in range(len(got) - 1)]))
        h.check(f"{name} is a permutation of the input",
                h.And([h.eq(h.count([h.eq(g, x, 0) for g in got]), h.count([h.eq(y, x, 0) for y in src])) for x in src]))
    h.check("lengths", len(h.cells(S.pos)) == P and len(h.cells(S.neg)) == N)


def regressions(h):
    """auxiliary concrete sweep: float32 / integer score dtypes with float64 thresholds (the model has a single real dtype)."""
    np = h.np
    rng = np.random.RandomState(3)
    bad = []
    for dt in (np.float32, np.int64, np.float64):
        pos = (rng.uniform(0, 4, 7)).astype(dt)
        neg = (rng.uniform(0, 4, 6)).astype(dt)
        thr = np.concatenate([[0.1, 0.7, 1.3, np.inf, -np.inf], pos.astype(np.float64), np.nextafter(neg.astype(np.float64), np.inf), np.nextafter(pos.astype(np.float64), -np.inf)])
        for sc, ec in CFGS:
            S = h.sa.Scores(pos, neg, nb_easy_pos=2, nb_easy_neg=3, score_class=sc, equal_class=ec)
            m = S.cm(thr).matrix
            for j, t in enumerate(thr):
                acc = {("pos", "pos"): lambda s: s >= t, ("pos", "neg"): lambda s: s > t, ("neg", "pos"): lambda s: s <= t, ("neg", "neg"): lambda s: s < t}[(sc, ec)]
                tp, fp = int(acc(pos.astype(np.float64)).sum()), int(acc(neg.astype(np.float64)).sum())
                if m[j].tolist() != [[tp + 2, len(pos) - tp], [fp, len(neg) - fp + 3]]:
                    bad.append((dt.__name__, sc, ec, float(t)))
    h.check("[dtype sweep] cm = counting for float32 / int64 / float64 scores with float64 thresholds", not bad)
    # dense threshold grids (hundreds of thresholds, many exactly equal to a score) against few scores, twice on one object
    bad2 = []
    pos, neg = np.array([0.5, 1.0, 1.0, 2.5, 3.0]), np.array([0.0, 1.0, 2.0, 2.5])
    grid = np.concatenate([np.linspace(-1, 4, 401), pos, neg, [np.inf, -np.inf]])
    for shape in ((-1,), (3, -1)):
        T = grid[: (len(grid) // 3) * 3].reshape(shape) if shape != (-1,) else grid
        for sc, ec in CFGS:
            S = h.sa.Scores(pos, neg, nb_easy_pos=1, nb_easy_neg=4, score_class=sc, equal_class=ec)
            for rep in range(2):
                m = S.cm(T).matrix.reshape(-1, 2, 2)
                for j, t in enumerate(T.reshape(-1)):
                    acc = {("pos", "pos"): lambda s: s >= t, ("pos", "neg"): lambda s: s > t, ("neg", "pos"): lambda s: s <= t, ("neg", "neg"): lambda s: s < t}[(sc, ec)]
                    tp, fp = int(acc(pos).sum()), int(acc(neg).sum())
                    if m[j].tolist() != [[tp + 1, len(pos) - tp], [fp, len(neg) - fp + 4]]:
                        bad2.append((sc, ec, rep, float(t)))
    h.check("[dense grid sweep] cm = counting on 400+ thresholds incl. exact ties, also on a repeated call", not bad2)
