"""C11 — bootstrap samples are well-formed resamples of their source (R-exact; every RNG draw is a symbol)."""
from .common import CFGS, oracle_cm

META = {
    "bounds": {"quick": {"source": "P,N in 0..2 scored samples (sorted harness, ties allowed), easy counts symbolic in [0,3] (non-stratified) / unbounded (by_label)",
                         "RNG": "every binomial / poisson / choice / normal / shuffle result is a fresh symbol constrained only by the documented contract",
                         "forked sizes": "drawn class sizes <= 4, single-pass multiplicities <= 2 per score (recorded cut)"},
               "thorough": {"source": "P,N in 0..3 (non-stratified replacement: P+N <= 4)", "forked sizes": "drawn class sizes <= 5"}},
    "assumptions": ["RNG contracts: binomial(n,p) in [0,n], =0 if p=0, =n if p=1; poisson(lam) >= 0, =0 if lam=0; choice(a,size,replace) -> size indices in [0,a), pairwise distinct without replacement; normal -> arbitrary reals",
                    "unbiasedness is decided in solver form: the distribution PARAMETERS requested from the RNG are the documented ones (moment identities), and every source score is reachable; that NumPy's generators realise those distributions is outside the technique",
                    "SINGLE_PASS_SAMPLE_THRESHOLD is lowered to 2 by assigning the module variable (documented knob) to reach the dynamic switch"],
    "required_covers": ["reach:pos0", "reach:pos1", "reach:neg0", "reach:neg1", "branch:poisson", "branch:binomial-single-pass", "dynamic:single_pass", "dynamic:replacement"],
}
OPTS = {"quick": {"query_timeout_ms": 30000, "max_paths": 20000, "max_decisions": 3000}, "thorough": {"query_timeout_ms": 120000, "max_paths": 200000, "max_decisions": 5000}}


def items(tier):
    out = []
    szs = [(1, 1), (2, 1), (2, 2), (0, 2), (2, 0)] if tier == "quick" else [(1, 1), (2, 1), (1, 2), (2, 2), (0, 2), (2, 0), (3, 2), (3, 3)]
    cfgs = CFGS if tier == "thorough" else [("pos", "pos"), ("neg", "pos"), ("pos", "neg")]
    for i, (P, N) in enumerate(szs):
        sc, ec = cfgs[i % len(cfgs)]
        for strat in (None, "by_label"):
            if strat is None and P + N >= 5:
                continue      # non-stratified replacement with 3+2 / 3+3 scores: > 25 min per item (symbolic drawn sizes x gathers), outside both tiers
            out.append({"kind": "replacement", "sc": sc, "ec": ec, "P": P, "N": N, "strat": strat, "smoothing": False})
        if P and N:
            for strat in (None, "by_label"):
                out.append({"kind": "single_pass", "sc": sc, "ec": ec, "P": P, "N": N, "strat": strat})
            out.append({"kind": "proportion", "sc": sc, "ec": ec, "P": P, "N": N})
    out.append({"kind": "proportion", "sc": "pos", "ec": "pos", "P": 3, "N": 1})      # sizes >= 2 are needed to tell with/without replacement apart
    out.append({"kind": "proportion", "sc": "neg", "ec": "neg", "P": 1, "N": 3})
    out.append({"kind": "replacement", "sc": "pos", "ec": "pos", "P": 2, "N": 2, "strat": "by_label", "smoothing": True})
    if tier == "thorough":      # symbolic drawn sizes x quantile/std terms: ~12 min
        out.append({"kind": "replacement", "sc": "neg", "ec": "pos", "P": 2, "N": 1, "strat": None, "smoothing": True})
    for P, N in ((1, 1), (2, 2), (2, 1), (1, 3)):
        for smoothing in (False, True):
            out.append({"kind": "dynamic", "P": P, "N": N, "smoothing": smoothing})
    out.append({"kind": "two_samples", "method": "single_pass"})
    out.append({"kind": "two_samples", "method": "replacement"})
    out.append({"kind": "misc"})
    # heaviest items first (the pool takes items in order): non-stratified single pass on 5-6 scores, smoothing with symbolic sizes
    out.sort(key=lambda it: -((it.get("P", 0) + it.get("N", 0)) ** 3 * (4 if it["kind"] == "single_pass" and it.get("strat") is None else 1) + 400 * bool(it.get("smoothing") and it.get("strat") is None)))
    return out


def run(h, kind, **p):
    return globals()["run_" + kind](h, **p)


def _source(h, sc, ec, P, N, kmax=None):
    pos, neg = h.reals("p", P), h.reals("n", N)
    for a in (pos, neg):
        for i in range(len(a) - 1):
            h.assume(a[i] <= a[i + 1])
    kp, kn = h.int("kp", 0, kmax), h.int("kn", 0, kmax)
    S = h.sa.Scores(h.array(pos), h.array(neg), nb_easy_pos=kp, nb_easy_neg=kn, score_class=sc, equal_class=ec)
    return S, pos, neg, kp, kn


def _config(h, **kw):
    return h.sa.BootstrapConfig(**kw)


def _wellformed(h, S, B, pos, neg, sc, ec, smoothing=False, tag=""):
    """obligations every bootstrap sample must satisfy, whatever the RNG returned."""
    bp, bn = h.cells(B.pos), h.cells(B.neg)
    h.check(tag + "sample keeps score_class and equal_class", B.score_class == S.score_class and B.equal_class == S.equal_class)
    if not smoothing:
        h.check(tag + "sample positives are source positives, sample negatives are source negatives",
                h.And([h.Or([h.eq(x, s, 0) for s in pos]) for x in bp] + [h.Or([h.eq(x, s, 0) for s in neg]) for x in bn]))
    h.check(tag + "sample arrays are ascending", h.And([h.le(a[i], a[i + 1], 0) for a in (bp, bn) for i in range(len(a) - 1)]))
    t = h.real("t_probe")
    got = h.cells(B.cm(t).matrix)
    tp, fn, fp, tn = oracle_cm(h, bp, bn, B.nb_easy_pos, B.nb_easy_neg, t, sc, ec)
    h.check(tag + "metrics of the sample equal direct counting on its scores", h.And(h.eq(got[0], tp), h.eq(got[1], fn), h.eq(got[2], fp), h.eq(got[3], tn)))
    h.check(tag + "easy counts are non-negative", h.And(h.le(0, B.nb_easy_pos), h.le(0, B.nb_easy_neg)))
    if pos:
        h.check(tag + "at least one scored positive whenever the source has one", len(bp) >= 1)
    if neg:
        h.check(tag + "at least one scored negative whenever the source has one", len(bn) >= 1)
    return bp, bn


def _log_find(log, fn):
    return [e for e in log if e["fn"] == fn]


def run_replacement(h, sc, ec, P, N, strat, smoothing):
    S, pos, neg, kp, kn = _source(h, sc, ec, P, N, kmax=None if strat == "by_label" else 3)
    B = S.bootstrap_sample(_config(h, sampling_method="replacement", stratified_sampling=strat, smoothing=smoothing))
    bp, bn = _wellformed(h, S, B, pos, neg, sc, ec, smoothing)
    total = P + N + kp + kn
    h.check("replacement sampling preserves the total sample count", h.eq(len(bp) + len(bn) + B.nb_easy_pos + B.nb_easy_neg, total))
    if strat == "by_label":
        h.check("by_label preserves each of the four strata exactly",
                h.And(len(bp) == P, len(bn) == N, h.eq(B.nb_easy_pos, kp), h.eq(B.nb_easy_neg, kn)))
    if h.mode == "sym":
        from symx.core import raw

        log = h.rng_log()
        ch = _log_find(log, "choice")
        h.check("hard samples are drawn uniformly with replacement from the source class (choice(n_src, size, replace=True), no weights)",
                len(ch) == 2 and ch[0]["args"]["a"] == P and ch[1]["args"]["a"] == N and all(c["args"]["replace"] is True and c["args"]["p"] is None for c in ch))
        if strat is None:
            bi = _log_find(log, "binomial")
            h.check("three binomial draws: class split, easy positives, easy negatives", len(bi) == 3)
            if len(bi) == 3:
                from symx.core import box

                h.check("class split ~ Binomial(nb_all_samples, nb_all_pos/nb_all_samples): expected positives = source positives",
                        h.And(h.eq(box(bi[0]["args"]["n"]), total), h.Implies(total > 0, h.eq(box(bi[0]["args"]["p"]) * total, P + kp))))
                h.check("easy positives ~ Binomial(nb_pos, easy_pos_ratio): expected easy fraction = source's", h.eq(box(bi[1]["args"]["p"]) * (P + kp), kp))
                h.check("easy negatives ~ Binomial(nb_neg, easy_neg_ratio)", h.eq(box(bi[2]["args"]["p"]) * (N + kn), kn))
        # reachability of every source score
        for i, s in enumerate(pos):
            _reach(h, f"reach:pos{i}", h.Or([h.eq(x, s, 0) for x in bp]) if bp else False)
        for i, s in enumerate(neg):
            _reach(h, f"reach:neg{i}", h.Or([h.eq(x, s, 0) for x in bn]) if bn else False)


def _reach(h, tag, cond):
    """record that `cond` is satisfiable on this path (reachability witness)."""
    if h.mode != "sym":
        return
    from symx.core import raw, is_sym

    c = raw(cond)
    if c is True:
        h.cover(tag)
    elif is_sym(c):
        r, _ = h.ex._side(c)
        if r == "sat":
            h.cover(tag)


def run_single_pass(h, sc, ec, P, N, strat):
    S, pos, neg, kp, kn = _source(h, sc, ec, P, N, kmax=None)
    if strat is None:
        h.assume(h.And(kp <= 200, kn <= 200))
    h.policy(mult_cap=2)
    B = S.bootstrap_sample(_config(h, sampling_method="single_pass", stratified_sampling=strat))
    bp, bn = _wellformed(h, S, B, pos, neg, sc, ec)
    if strat == "by_label":
        h.check("by_label keeps the easy strata exactly", h.And(h.eq(B.nb_easy_pos, kp), h.eq(B.nb_easy_neg, kn)))
    if h.mode == "sym":
        from symx.core import box

        log = [e for e in h.rng_log() if e["fn"] in ("binomial", "poisson") and e["args"].get("size") is not None]
        h.check("one multiplicity draw per class, sized by the SOURCE class of the same class", len(log) == 2 and log[0]["args"]["size"] == (P,) and log[1]["args"]["size"] == (N,))
        for e, n_src, nm in zip(log, (P, N), ("pos", "neg")):
            if e["fn"] == "binomial":
                h.cover("branch:binomial-single-pass")
                h.check(f"{nm}: multiplicities ~ Binomial(n_drawn, 1/n_src): each source score expected n_drawn/n_src times",
                        h.eq(box(e["args"]["p"]) * n_src, 1))
                if strat == "by_label":
                    h.check(f"{nm}: n = source class size under by_label", h.eq(box(e["args"]["n"]), n_src))
            else:
                h.cover("branch:poisson")
                lam_n = box(e["args"]["lam"]) * n_src
                h.check(f"{nm}: Poisson rate * n_src = n_drawn (an integer >= 100)", h.And(h.le(100, lam_n), h.eq(lam_n, h.np.floor(lam_n))))


def run_proportion(h, sc, ec, P, N):
    S, pos, neg, kp, kn = _source(h, sc, ec, P, N, kmax=9)
    ratio = h.real("ratio", float_atom=False)
    h.assume(h.And(ratio > 0, ratio < 1))
    B = S.bootstrap_sample(_config(h, sampling_method="proportion", ratio=ratio))
    bp, bn = _wellformed(h, S, B, pos, neg, sc, ec)
    # sizes: max(int(ratio * size), 1) — with ratio < 1 and size <= 3 that is floor(ratio*size) or 1
    for got, src, nm in ((bp, pos, "pos"), (bn, neg, "neg")):
        n = len(src)
        k = len(got)
        h.check(f"{nm}: sample size = max(floor(ratio * size), 1)", h.And(h.Or(k == 1, h.And(k <= ratio * n, ratio * n < k + 1)), h.Implies(ratio * n >= 2, k >= 2)))
        # without replacement: no source score is used more often than it occurs in the source
        h.check(f"{nm}: drawn without replacement (multiplicities bounded by the source's)",
                h.And([h.le(h.count([h.eq(x, s, 0) for x in got]), h.count([h.eq(y, s, 0) for y in src])) for s in src]))
    if h.mode == "sym":
        ch = _log_find(h.rng_log(), "choice")
        h.check("proportion sampling asks the RNG for draws without replacement from each class's scores",
                len(ch) == 2 and all(c["args"]["replace"] is False and c["args"]["p"] is None for c in ch) and ch[0]["args"]["a"] == ("array", P) and ch[1]["args"]["a"] == ("array", N))
    h.check("easy counts scaled by the ratio and truncated", h.And(h.le(B.nb_easy_pos, ratio * kp), ratio * kp < B.nb_easy_pos + 1, h.le(B.nb_easy_neg, ratio * kn), ratio * kn < B.nb_easy_neg + 1))
    try:
        S.bootstrap_sample(_config(h, sampling_method="proportion"))
        h.fail("proportion sampling without ratio must raise ValueError")
    except ValueError:
        h.check("proportion sampling without ratio raises ValueError", True)


def run_dynamic(h, P, N, smoothing):
    mod = h.sa.scores
    old = mod.SINGLE_PASS_SAMPLE_THRESHOLD
    mod.SINGLE_PASS_SAMPLE_THRESHOLD = 2
    try:
        S, pos, neg, kp, kn = _source(h, "pos", "pos", P, N, kmax=2)
        cfg = _config(h, sampling_method="dynamic", smoothing=smoothing, stratified_sampling="by_label")
        m = S._sampling_method(cfg)
        want = "replacement" if (P < 2 or N < 2 or smoothing) else "single_pass"
        h.check("dynamic resolves to single_pass only with enough scores per class and no smoothing", m == want)
        h.cover("dynamic:" + want)
        B = S.bootstrap_sample(cfg)
        _wellformed(h, S, B, pos, neg, "pos", "pos", smoothing)
        h.check("explicit methods are returned unchanged", S._sampling_method(_config(h, sampling_method="replacement")) == "replacement")
    finally:
        mod.SINGLE_PASS_SAMPLE_THRESHOLD = old


def run_two_samples(h, method):
    """two samples drawn from one source and kept: drawing the second must not disturb the first"""
    S, pos, neg, kp, kn = _source(h, "neg", "pos", 2, 1, kmax=2)
    h.policy(mult_cap=2)
    cfg = _config(h, sampling_method=method, stratified_sampling="by_label")
    B1 = S.bootstrap_sample(cfg)
    snap = (h.snapshot(B1.pos), h.snapshot(B1.neg), B1.nb_easy_pos, B1.nb_easy_neg)
    B2 = S.bootstrap_sample(cfg)
    h.check("an earlier sample is unchanged after drawing another one from the same source",
            h.unchanged(snap[0], B1.pos) and h.unchanged(snap[1], B1.neg) and h.eq(B1.nb_easy_pos, snap[2], 0) is not False and h.eq(B1.nb_easy_neg, snap[3], 0) is not False)
    _wellformed(h, S, B1, pos, neg, "neg", "pos", tag="[first sample, after the second was drawn] ")
    _wellformed(h, S, B2, pos, neg, "neg", "pos", tag="[second sample] ")
    h.check("source untouched", h.And([h.eq(a, b, 0) for a, b in zip(h.cells(S.pos) + h.cells(S.neg), pos + neg)]))


def run_misc(h):
    S, pos, neg, kp, kn = _source(h, "pos", "pos", 1, 1, kmax=1)
    for bad in ("bogus", "Replacement", ""):
        try:
            S.bootstrap_sample(_config(h, sampling_method=bad))
            h.fail("unsupported sampling method string must raise ValueError")
        except ValueError:
            h.check("unsupported sampling method string raises ValueError", True)
    try:
        S.bootstrap_sample(_config(h, sampling_method=42))
        h.fail("non-string, non-callable sampling method must raise ValueError")
    except ValueError:
        h.check("non-string, non-callable sampling method raises ValueError", True)
    try:
        S.bootstrap_sample(_config(h, sampling_method="single_pass", stratified_sampling="by_label", smoothing=True))
        h.fail("single_pass with smoothing must raise ValueError")
    except ValueError:
        h.check("single_pass with smoothing raises ValueError", True)
    seen = []
    marker = h.sa.Scores(h.array([h.const("7")]), h.array([h.const("8")]))

    def custom(src):
        seen.append(src)
        return marker

    out = S.bootstrap_sample(_config(h, sampling_method=custom))
    h.check("a callable sampler is called once with the source and its result is returned as is", len(seen) == 1 and seen[0] is S and out is marker)
