"""Shared oracle for threshold setting (C02, C03, C09): written from the property texts."""
from .common import accepted

METRICS = {  # name -> (relevant class, alias, increasing in threshold when score_class == pos)
    "tpr": ("pos", "tar", False), "fnr": ("pos", "frr", True), "tnr": ("neg", "trr", True), "fpr": ("neg", "far", False),
    "topr": ("all", "acceptance_rate", False), "tonr": ("all", "rejection_rate", True),
}
THR_ALIAS = {"tpr": "threshold_at_tar", "fnr": "threshold_at_frr", "tnr": "threshold_at_trr", "fpr": "threshold_at_far",
             "topr": "threshold_at_acceptance_rate", "tonr": "threshold_at_rejection_rate"}


def numerator(h, metric, pos, neg, kp, kn, t, sc, ec):
    """count in the metric's numerator at threshold t under tie-break ec, and the population M."""
    tp = h.count([accepted(h, sc, ec, s, t) for s in pos]) + kp
    fp = h.count([accepted(h, sc, ec, s, t) for s in neg])
    P, N = len(pos) + kp, len(neg) + kn
    return {"tpr": (tp, P), "fnr": (P - tp, P), "fpr": (fp, N), "tnr": (N - fp, N), "topr": (tp + fp, P + N),
            "tonr": (P + N - tp - fp, P + N)}[metric]


def achievable(metric, P, N, kp, kn):
    """(lowest, highest) achievable numerator: all / none of the scored samples on the counted side."""
    return {"tpr": (kp, P + kp), "fnr": (0, P), "tnr": (kn, N + kn), "fpr": (0, N), "topr": (kp, kp + P + N),
            "tonr": (kn, kn + P + N)}[metric]


def relevant(metric, pos, neg):
    cls = METRICS[metric][0]
    return pos if cls == "pos" else neg if cls == "neg" else pos + neg


def flip(ec):
    return "neg" if ec == "pos" else "pos"


def direction(metric, sc):
    """+1 if the threshold is a non-decreasing function of the target, -1 if non-increasing."""
    inc = METRICS[metric][2]
    return 1 if inc == (sc == "pos") else -1
