"""C05 — multiclass confusion matrices: faithful construction, conservative one-vs-all (R-exact)."""
import itertools

META = {
    "bounds": {"quick": {"from predictions": "m <= 3 samples, labels/predictions symbolic over 3 classes (explicit class orders: all 6 permutations; classes=None: np.unique forks), weights absent / symbolic Int / symbolic Real > 0",
                         "from matrix": "N in {2,3} (4 for one-vs-all), leading shapes (), (2,), (2,3), (2,2) [thorough also (3,1,2), (1,3)], entries symbolic >= 0; nested lists, dict of dicts, DataFrame stub, every class reordering"},
               "thorough": {"from predictions": "m <= 4", "from matrix": "N in {2,3,4}"}},
    "assumptions": ["R-exact (counting and adding)", "pandas is replaced by symx.pd: DataFrame.loc[list, list] reorders rows/columns by label (pandas-documented contract)",
                    "class labels are small integers or fixed strings; weights positive"],
}
OPTS = {"quick": {"query_timeout_ms": 30000, "max_paths": 20000, "max_decisions": 2000}, "thorough": {"query_timeout_ms": 120000, "max_paths": 100000, "max_decisions": 20000}}
PER_CLASS = ["tp", "tn", "fp", "fn", "p", "n", "top", "ton", "tpr", "tnr", "fpr", "fnr", "ppv", "npv", "fdr", "for_", "topr", "tonr", "class_accuracy", "class_error_rate"]


def items(tier):
    out = []
    ms = [1, 2, 3] if tier == "quick" else [1, 2, 3, 4]
    for m in ms:
        for w in ("none", "int", "real"):
            out.append({"kind": "pred", "m": m, "weights": w, "classes": "none"})
    for perm in itertools.permutations([0, 1, 2]):
        out.append({"kind": "pred", "m": 2, "weights": "real", "classes": list(perm)})
    out.append({"kind": "pred", "m": 2, "weights": "none", "classes": [5, 0, 2, 1]})   # a class that never occurs
    out.append({"kind": "pred_binary", "m": 3})
    for N in (2, 3):
        for perm in itertools.permutations(range(N)):
            out.append({"kind": "matrix_inputs", "N": N, "perm": list(perm)})
    for N in ((2, 3, 4)):
        # zero entries allowed (NaN locus: one path per empty-row/column pattern) only for a single small matrix;
        # stacked / 4-class matrices have entries >= 1 so that no NaN forks occur
        out.append({"kind": "one_vs_all", "N": N, "X": "()", "dom": "int", "lo": 0 if N < 4 else 1})
        if not (N == 4 and tier == "quick"):
            out.append({"kind": "one_vs_all", "N": N, "X": "(2,)", "dom": "int", "lo": 1})
        out.append({"kind": "one_vs_all", "N": N, "X": "()", "dom": "real", "lo": 0 if N < 3 else 1})
    # two leading axes of different length (and, thorough, three): the class axis must stay the last one in every view
    out.append({"kind": "one_vs_all", "N": 2, "X": "(2, 3)", "dom": "int", "lo": 1, "views": True})
    out.append({"kind": "one_vs_all", "N": 3, "X": "(2, 2)", "dom": "int", "lo": 1, "views": True})
    if tier != "quick":
        out.append({"kind": "one_vs_all", "N": 2, "X": "(3, 1, 2)", "dom": "int", "lo": 1, "views": True})
        out.append({"kind": "one_vs_all", "N": 3, "X": "(1, 3)", "dom": "real", "lo": 1})
    for perm in itertools.permutations(range(3)):
        if list(perm) != [0, 1, 2]:
            out.append({"kind": "equivariance", "N": 3, "perm": list(perm)})
    out.append({"kind": "invalid"})
    return out


def run(h, kind, **p):
    return globals()["run_" + kind](h, **p)


def run_pred(h, m, weights, classes):
    universe = [0, 1, 2] if classes == "none" else list(classes)
    vals = [0, 1, 2]
    labels, preds = h.ints("l", m, 0, 2), h.ints("q", m, 0, 2)
    if weights == "none":
        w, warg = [1] * m, None
    elif weights == "int":
        w = h.ints("w", m, 1)
        warg = h.array(w)
    else:
        w = h.reals("w", m, float_atom=False)
        for x in w:
            h.assume(x > 0)
        warg = h.array(w)
    kw = {} if classes == "none" else {"classes": list(classes)}
    try:
        cm = h.sa.ConfusionMatrix(labels=h.array(labels), predictions=h.array(preds), weights=warg, **kw)
    except ValueError:
        # documented: a class set of size < 2 is rejected (only possible with classes=None)
        few = h.And([h.eq(x, labels[0]) for x in labels + preds])
        h.check("ValueError only when fewer than two classes occur (classes=None)", few if classes == "none" else False)
        return
    if classes == "none":
        h.check("fewer than two occurring classes are rejected", h.Not(h.And([h.eq(x, labels[0]) for x in labels + preds])))
    cls = [int(c) for c in h.cells(cm.classes)] if h.mode == "conc" else [h.concretize(c) for c in h.cells(cm.classes)]
    if classes == "none":
        present = [v for v in vals if h.decide(h.Or([h.eq(x, v) for x in labels + preds]))]
        h.check("classes=None: the classes are the values that occur, in sorted order", cls == present)
    else:
        h.check("explicit classes are used as given", cls == list(classes))
    M = h.cells(cm.matrix)
    N = len(cls)
    h.check("matrix is N x N", h.shape(cm.matrix) == (N, N))
    for i, ci in enumerate(cls):
        for j, cj in enumerate(cls):
            want = h.sum([h.ite(h.And(h.eq(l, ci), h.eq(q, cj)), wk, 0) for l, q, wk in zip(labels, preds, w)])
            h.check("entry [i,j] = total weight of samples with label class i and predicted class j", h.eq(M[i * N + j], want))
    h.check("population = total weight", h.eq(cm.pop(), h.sum(w)))


def run_pred_binary(h, m):
    labels, preds = h.ints("l", m, 0, 1), h.ints("q", m, 0, 1)
    cm = h.sa.ConfusionMatrix(labels=h.array(labels), predictions=h.array(preds), binary=True)
    M = h.cells(cm.matrix)
    # binary: classes ordered [positive=1, negative=0]
    tp = h.count([h.And(h.eq(l, 1), h.eq(q, 1)) for l, q in zip(labels, preds)])
    fn = h.count([h.And(h.eq(l, 1), h.eq(q, 0)) for l, q in zip(labels, preds)])
    fp = h.count([h.And(h.eq(l, 0), h.eq(q, 1)) for l, q in zip(labels, preds)])
    tn = h.count([h.And(h.eq(l, 0), h.eq(q, 0)) for l, q in zip(labels, preds)])
    h.check("binary matrix from predictions is [[TP,FN],[FP,TN]] with classes [1,0]", h.And(h.eq(M[0], tp), h.eq(M[1], fn), h.eq(M[2], fp), h.eq(M[3], tn)))
    h.check("tp()/fn()/fp()/tn() scalars", h.And(h.eq(cm.tp(), tp), h.eq(cm.fn(), fn), h.eq(cm.fp(), fp), h.eq(cm.tn(), tn)))


def _entries(h, N, dom="int", prefix="e", lo=0):
    mk = (lambda nm: h.int(nm, lo)) if dom == "int" else (lambda nm: h.real(nm, float_atom=False))
    E = [[mk(f"{prefix}{i}_{j}") for j in range(N)] for i in range(N)]
    if dom == "real":
        for row in E:
            for x in row:
                h.assume(x >= lo)
    return E


def run_matrix_inputs(h, N, perm):
    names = ["a", "b", "c"][:N]
    E = _entries(h, N)
    order = [names[k] for k in perm]
    want = [[E[perm[i]][perm[j]] for j in range(N)] for i in range(N)]   # matrix in the requested class order
    as_list = h.sa.ConfusionMatrix(matrix=[[want[i][j] for j in range(N)] for i in range(N)], classes=order)
    dd = {names[i]: {names[j]: E[i][j] for j in range(N)} for i in range(N)}
    as_dict = h.sa.ConfusionMatrix(matrix=dd, classes=order)
    as_dict_default = h.sa.ConfusionMatrix(matrix=dd)
    if h.mode == "sym":
        from symx import pd
    else:
        import pandas as pd
    frame = pd.DataFrame([[E[i][j] for j in range(N)] for i in range(N)], index=names, columns=names)
    as_frame = h.sa.ConfusionMatrix(matrix=frame, classes=order)
    # frame whose columns are stored in a different order than its rows
    rev = list(reversed(names))
    frame2 = pd.DataFrame([[E[i][N - 1 - j] for j in range(N)] for i in range(N)], index=names, columns=rev)
    as_frame2 = h.sa.ConfusionMatrix(matrix=frame2, classes=order)
    ref = [x for row in want for x in row]
    for nm, obj in (("nested lists", as_list), ("dict of dicts", as_dict), ("DataFrame", as_frame), ("DataFrame with permuted columns", as_frame2)):
        got = h.cells(obj.matrix)
        h.check(f"{nm}: same matrix in the requested class order", len(got) == N * N and h.And([h.eq(a, b, 0) for a, b in zip(got, ref)]))
        h.check(f"{nm}: classes as requested", [str(c) for c in h.cells(obj.classes)] == order)
    # DataFrame with permuted columns and NO classes argument: classes come from the index, entries by label
    fd = h.sa.ConfusionMatrix(matrix=frame2)
    h.check("DataFrame with permuted columns, classes=None: rows/columns matched by label, index order",
            [str(c) for c in h.cells(fd.classes)] == names and h.And([h.eq(a, b, 0) for a, b in zip(h.cells(fd.matrix), [E[i][j] for i in range(N) for j in range(N)])]))
    got = h.cells(as_dict_default.matrix)
    h.check("dict of dicts without classes: key order", h.And([h.eq(a, b, 0) for a, b in zip(got, [E[i][j] for i in range(N) for j in range(N)])]))
    for bad in (["a", "x", "c"][:N], names[:-1]):
        try:
            h.sa.ConfusionMatrix(matrix=dd, classes=bad)
            h.fail("classes that are not a reordering of the keys must raise ValueError")
        except ValueError:
            h.check("classes that are not a reordering of the keys raise ValueError", True)


def run_one_vs_all(h, N, X, dom, lo=0, views=False):
    lead = tuple(eval(X))
    nm_ = 1
    for d_ in lead:
        nm_ *= d_
    mats = [_entries(h, N, dom, prefix=f"e{k}_", lo=lo) for k in range(nm_)]
    arr = h.np.asarray(mats[0] if X == "()" else mats)
    if len(lead) > 1:
        arr = arr.reshape(lead + (N, N))
    cm = h.sa.ConfusionMatrix(matrix=arr)
    ova = cm.one_vs_all()
    h.check("one_vs_all shape = X + (N,2,2), binary", h.shape(ova.matrix) == lead + (N, 2, 2) and ova.binary is True)
    O = h.cells(ova.matrix)
    names_ = ["tp", "fn", "tpr", "ppv"] if views else PER_CLASS
    vals = {nm: h.cells(getattr(cm, nm)()) for nm in names_}
    for nm in names_:
        h.check(f"{nm}: shape X + (N,)", h.shape(getattr(cm, nm)()) == lead + (N,))
    acc = h.cells(cm.accuracy())
    for k, E in enumerate([] if views else mats):     # views=True: only the shape / as_dict obligations (algebra is covered by the other items)
        tot = h.sum([x for row in E for x in row])
        for j in range(N):
            o = O[(k * N + j) * 4:(k * N + j) * 4 + 4]
            row, col = h.sum(E[j]), h.sum([E[i][j] for i in range(N)])
            h.check("one-vs-all conserves the population for every class", h.eq(h.sum(o), tot))
            h.check("TP_j on the diagonal, P_j row sum, TOP_j column sum",
                    h.And(h.eq(o[0], E[j][j]), h.eq(o[0] + o[1], row), h.eq(o[0] + o[2], col), h.eq(o[3], tot - row - col + E[j][j])))
            g = lambda nm: vals[nm][k * N + j]
            h.check("per-class counts", h.And(h.eq(g("tp"), E[j][j]), h.eq(g("p"), row), h.eq(g("top"), col), h.eq(g("fn"), row - E[j][j]), h.eq(g("fp"), col - E[j][j])))
            tpr = g("tpr")
            if h.is_nan(tpr):
                h.check("per-class tpr NaN only for an empty row", h.eq(row, 0))
            else:
                h.check("per-class tpr = TP_j / P_j", h.And(h.Not(h.eq(row, 0)), h.eq(tpr * row, E[j][j])))
        a = acc[k]
        tr = h.sum([E[i][i] for i in range(N)])
        if h.is_nan(a):
            h.check("accuracy NaN only for an empty matrix", h.eq(tot, 0))
        else:
            h.check("accuracy = trace / population", h.And(h.Not(h.eq(tot, 0)), h.eq(a * tot, tr)))
    # as_dict agrees with the array form
    for nm in (("tpr", "fp") if views else ("tpr", "ppv", "fp", "class_accuracy")):
        d = getattr(cm, nm)(as_dict=True)
        arrv = getattr(cm, nm)()
        ok = [sorted(int(k) for k in d.keys()) == list(range(N))]
        for j in range(N):
            key = [k for k in d.keys() if int(k) == j][0]
            a, b = h.cells(d[key]), h.cells(h.np.take(arrv, j, axis=-1))
            ok.append(h.shape(d[key]) == lead and len(a) == len(b) and h.And([(h.is_nan(x) and h.is_nan(y)) if (h.is_nan(x) or h.is_nan(y)) else h.eq(x, y, 0) for x, y in zip(a, b)]))
        h.check(f"{nm}: as_dict[c_j] = array[..., j]", h.And(ok))
    if views:
        # the interval views on CONCRETE pairwise-distinct entries (12 symbolic radicands cost ~50 s and add nothing: the
        # obligation is about which axis is split, and distinct entries tell every position apart)
        cnt = iter(range(3, 10 ** 6, 7))
        cm = h.sa.ConfusionMatrix(matrix=h.np.asarray([[[next(cnt) for _ in range(N)] for _ in range(N)] for _ in range(nm_)]).reshape(lead + (N, N)))
    ci = cm.tpr_ci(as_dict=True)
    h.check("tpr_ci as_dict: one (…,2) interval per class", sorted(int(k) for k in ci.keys()) == list(range(N)) and all(h.shape(v) == lead + (2,) for v in ci.values()))
    if views:       # values compared on the concrete matrix only (a second symbolic call would double the sqrt decisions for nothing)
        full = cm.tpr_ci()
        h.check("tpr_ci: shape X + (N, 2)", h.shape(full) == lead + (N, 2))
        h.check("tpr_ci as_dict[c_j] = array[..., j, :]", all(
            h.shape(ci[key]) == lead + (2,) and h.And([h.eq(x, y, 0) for x, y in zip(h.cells(ci[key]), h.cells(h.np.take(full, int(key), axis=-2)))]) for key in ci.keys()))


def run_equivariance(h, N, perm):
    E = _entries(h, N, lo=1)
    cm = h.sa.ConfusionMatrix(matrix=h.np.asarray(E))
    Ep = [[E[perm[i]][perm[j]] for j in range(N)] for i in range(N)]
    cmp_ = h.sa.ConfusionMatrix(matrix=h.np.asarray(Ep))
    for nm in PER_CLASS:
        a, b = h.cells(getattr(cm, nm)()), h.cells(getattr(cmp_, nm)())
        ok = []
        for i in range(N):
            x, y = a[perm[i]], b[i]
            ok.append((h.is_nan(x) and h.is_nan(y)) if (h.is_nan(x) or h.is_nan(y)) else h.eq(x, y))
        h.check(f"{nm}: permuting the classes permutes the per-class metric", h.And(ok))
    a, b = cm.accuracy(), cmp_.accuracy()
    h.check("accuracy invariant under class permutation", (h.is_nan(a) and h.is_nan(b)) if (h.is_nan(a) or h.is_nan(b)) else h.eq(a, b))


def run_invalid(h):
    CM = h.sa.ConfusionMatrix
    for kw in ({"matrix": [[1, 2], [3, 4]], "labels": [0, 1]}, {"matrix": [[1, 2, 3], [4, 5, 6]]}, {"matrix": [1, 2]},
               {"matrix": [[1, 2], [3, 4]], "classes": [0, 0]}, {"matrix": [[1]], "classes": [0]}, {"labels": [0, 1]},
               {"matrix": [[1, 2, 3], [4, 5, 6], [7, 8, 9]], "binary": True}, {"labels": [0, 1], "predictions": [0, 1], "weights": [1.0]}):
        try:
            CM(**kw)
            h.fail(f"invalid construction {sorted(kw)} must raise ValueError")
        except ValueError:
            h.check("invalid construction raises ValueError", True)
    b = CM(matrix=[[1, 2], [3, 4]], binary=True)
    try:
        b.tpr(as_dict=True)
        h.fail("as_dict on a binary matrix must raise ValueError")
    except ValueError:
        h.check("as_dict on a binary matrix raises ValueError", True)
