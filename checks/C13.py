"""C13 — utils.bootstrap_ci follows the documented quantile / BC / BCa formulas (R-ideal; Phi, Phi^-1 axiomatised)."""
import itertools

META = {
    "bounds": {"quick": {"replicates": "n <= 3 (quantile: 4), metric shapes () and (2,)", "NaN mask": "none / one NaN / NaN row", "alpha": "symbolic in (0,1); array alpha (2,) for quantile"},
               "thorough": {"replicates": "n <= 4 (quantile: 5)", "NaN mask": "as quick", "alpha": "as quick"}},
    "assumptions": ["R-ideal: exact real arithmetic", "Phi / Phi^-1: uninterpreted, strictly increasing, mutually inverse, Phi(0)=1/2, Phi(-z)=1-Phi(z), 0<Phi<1",
                    "the 'empirical quantile' of the property is NumPy's default (linear) quantile of the finite replicates: the oracle calls the same quantile model",
                    "bca ordering/nesting only under the property's pole condition |a(z0+z_alpha)|<1"],
}
OPTS = {"quick": {"query_timeout_ms": 40000, "max_paths": 50000, "check_timeout_ms": 10000}, "thorough": {"query_timeout_ms": 180000, "max_paths": 200000, "check_timeout_ms": 10000}}

NAN = float("nan")


PATTERNS = {"skewed": ["0", "1", "3"], "constant": ["1", "1", "1"], "outlier": ["0", "0", "1", "7"], "pair": ["-1", "2"]}


def items(tier):
    out = []
    nq = [1, 2, 3, 4] if tier == "quick" else [1, 2, 3, 4, 5]
    nb = [1, 2, 3] if tier == "quick" else [1, 2, 3, 4]
    for n in nq:
        out.append({"kind": "formula", "method": "quantile", "n": n, "Y": "()", "nan": "none"})
    out.append({"kind": "formula", "method": "quantile", "n": 3, "Y": "(2,)", "nan": "one"})
    out.append({"kind": "formula", "method": "quantile", "n": 3, "Y": "()", "nan": "one", "alpha": "(2,)"})
    out.append({"kind": "formula", "method": "quantile", "n": 2, "Y": "(2,)", "nan": "none", "alpha": "(2,)"})   # vector metric AND vector alpha: axis order
    for n in nb:
        out.append({"kind": "formula", "method": "bc", "n": n, "Y": "()", "nan": "none"})
    out.append({"kind": "formula", "method": "bc", "n": 3, "Y": "()", "nan": "one"})
    out.append({"kind": "formula", "method": "bc", "n": 2, "Y": "(2,)", "nan": "none"})
    # bca: fully symbolic replicates only at n=1 (and n=3 with one NaN row, thorough); otherwise
    # concrete replicate patterns with symbolic estimate and alpha
    out.append({"kind": "formula", "method": "bca", "n": 1, "Y": "()", "nan": "none"})
    if tier == "thorough":
        # (fully symbolic bca at n=2 is cubic with a pole: z3 decided it in ~3 min in one session and not within 35 min in
        #  another - too erratic for a registered command, outside both tiers)
        out.append({"kind": "formula", "method": "bca", "n": 3, "Y": "()", "nan": "one"})
    for pat in PATTERNS:
        out.append({"kind": "formula", "method": "bca", "n": len(PATTERNS[pat]), "Y": "()", "nan": "none", "pattern": pat})
    out.append({"kind": "formula", "method": "bca", "n": 3, "Y": "()", "nan": "one", "pattern": "skewed"})
    for m in ("quantile", "bc", "bca"):
        n = 3
        pats = [None] if m != "bca" else ["skewed", "outlier"]
        for pat in pats:
            base = {"kind": "derived", "method": m, "n": n if pat is None else len(PATTERNS[pat])}
            if pat:
                base["pattern"] = pat
            out.append(dict(base, what="ordered-range"))
            out.append(dict(base, what="nanrow"))
            k = base["n"]
            perms = [p for p in itertools.permutations(range(k)) if list(p) != sorted(p)]
            if m == "bca":
                # nonlinear and slow (1-2.5 min each): thorough tier only; affine equivariance and component
                # independence of bca are NOT checked separately (they follow from formula agreement)
                if tier == "thorough":
                    out.append(dict(base, what="nested"))
                    out.append(dict(base, what="perm", perm=list(perms[-1])))
                continue
            out.append(dict(base, what="nested"))
            for perm in perms:
                out.append(dict(base, what="perm", perm=list(perm)))
            for c in ("1/2", "2"):
                out.append(dict(base, what="affine", c=c))
        if m != "bca":
            out.append({"kind": "derived", "method": m, "n": 2, "what": "component"})
    out.append({"kind": "errors"})
    return out


def run(h, kind, **p):
    return {"formula": run_formula, "derived": run_derived, "errors": run_errors}[kind](h, **p)


def witness_variants(w, params):
    """counter-models over the uninterpreted Phi often need a far smaller alpha with the real Phi (tails, bca pole):
    propose the same witness with alpha scaled down by powers of ten"""
    from fractions import Fraction

    keys = [k for k in w if k.startswith("alpha")]
    for e in range(1, 16):
        w2 = dict(w)
        for k in keys:
            w2[k] = str(max(Fraction(w[k]) / 10 ** e, Fraction(1, 10 ** 15)))      # keep 1 - alpha/2 < 1 in float64
        yield w2


def _alpha(h, name="alpha"):
    a = h.real(name, float_atom=False)
    h.assume(h.And(a > 0, a < 1))
    return a


def _theta(h, n, Y, nan, prefix="th", pattern=None):
    """returns (array, columns) where columns[j] = list of n cells (floats or NaN)."""
    k = 1 if Y == "()" else 2
    if pattern is None:
        cols = [[h.real(f"{prefix}{i}_{j}") for i in range(n)] for j in range(k)]
    else:
        cols = [[h.const(v) for v in PATTERNS[pattern]] for j in range(k)]
    if nan == "one" and n >= 2:
        cols[0][n - 1] = NAN
    if nan == "row" and n >= 2:
        for j in range(k):
            cols[j][0] = NAN
    if Y == "()":
        arr = h.array(cols[0])
    else:
        arr = h.np.asarray([[cols[j][i] for j in range(k)] for i in range(n)])
    return arr, cols


def _finite(h, col):
    return [c for c in col if not h.is_nan(c)]


def _q(h, vals, q):
    """empirical quantile (NumPy default) of finite values — environment function, not code under test."""
    return h.np.quantile(h.array(vals), q)


def _oracle_levels(h, method, col, hat, alpha):
    """documented levels at which the empirical quantile is taken: (lo_level, hi_level); None if undefined."""
    lo, hi = alpha / 2, 1 - alpha / 2
    if method == "quantile":
        return lo, hi
    fin = _finite(h, col)
    p0 = h.count([c <= hat for c in fin]) / len(fin)
    z0 = h.stats.norm.ppf(p0)
    zl, zu = h.stats.norm.ppf(lo), h.stats.norm.ppf(hi)
    if method == "bc":
        return h.stats.norm.cdf(2 * z0 + zl), h.stats.norm.cdf(2 * z0 + zu)
    if h.is_special(z0):
        return h.stats.norm.cdf(z0), h.stats.norm.cdf(z0)
    num = h.sum([(c - hat) * (c - hat) * (c - hat) for c in fin])
    s2 = h.sum([(c - hat) * (c - hat) for c in fin])
    den = 6 * s2 * h.sqrt(s2)
    if h.decide(h.eq(den, 0, 0)):
        a = 0
    else:
        a = num / den
    sl, su = z0 + zl, z0 + zu
    return h.stats.norm.cdf(z0 + sl / (1 - a * sl)), h.stats.norm.cdf(z0 + su / (1 - a * su))


def run_formula(h, method, n, Y, nan, alpha="()", pattern=None):
    arr, cols = _theta(h, n, Y, nan, pattern=pattern)
    k = len(cols)
    hats = [h.real(f"hat{j}", float_atom=False) for j in range(k)]
    hat = hats[0] if Y == "()" else h.array(hats)
    if alpha == "()":
        al = _alpha(h)
        alphas, A = [al], al
    else:
        alphas = [_alpha(h, "alpha0"), _alpha(h, "alpha1")]
        A = h.array(alphas)
    ci = h.sa.utils.bootstrap_ci(arr, hat, A, method=method)
    yshape = () if Y == "()" else (2,)
    zshape = () if alpha == "()" else (2,)
    h.check("shape = metric shape + alpha shape + (2,)", h.shape(ci) == yshape + zshape + (2,))
    out = h.cells(ci)
    pos = 0
    for j in range(k):
        fin = _finite(h, cols[j])
        for a_ in alphas:
            lo, hi = out[pos], out[pos + 1]
            pos += 2
            lv = _oracle_levels(h, method, cols[j], hats[j], a_)
            wl, wh = _q(h, fin, lv[0]), _q(h, fin, lv[1])
            if h.is_nan(wl) or h.is_nan(wh) or h.is_nan(lo) or h.is_nan(hi):
                h.check("NaN limits only where the documented formula is undefined", h.is_nan(wl) == h.is_nan(lo) and h.is_nan(wh) == h.is_nan(hi))
                continue
            h.check(f"{method}: limits equal the documented formula", h.And(h.eq(lo, wl), h.eq(hi, wh)))


def _ci(h, arr, hat, al, method):
    return h.cells(h.sa.utils.bootstrap_ci(arr, hat, al, method=method))


def _pole_ok(h, method, col, hat, al):
    """property's side condition for bca: |a (z0 + z_alpha)| < 1 on both tails."""
    if method != "bca":
        return True
    fin = _finite(h, col)
    p0 = h.count([c <= hat for c in fin]) / len(fin)
    z0 = h.stats.norm.ppf(p0)
    if h.is_special(z0):
        return True
    num = h.sum([(c - hat) * (c - hat) * (c - hat) for c in fin])
    s2 = h.sum([(c - hat) * (c - hat) for c in fin])
    den = 6 * s2 * h.sqrt(s2)
    if h.decide(h.eq(den, 0, 0)):
        return True
    a = num / den
    conds = []
    for lv in (al / 2, 1 - al / 2):
        s = z0 + h.stats.norm.ppf(lv)
        conds.append(h.And(a * s < 1, a * s > -1))
    return h.And(conds)


def run_derived(h, method, n, what, perm=None, c=None, pattern=None):
    arr, cols = _theta(h, n, "()" if what != "component" else "(2,)", "none", pattern=pattern)
    col = cols[0]
    hat = h.real("hat", float_atom=False)
    al = _alpha(h)
    if what == "ordered-range":
        lo, hi = _ci(h, arr, hat, al, method)
        pre = _pole_ok(h, method, col, hat, al)
        h.check("lower <= upper", h.Implies(pre, h.le(lo, hi)))
        h.check("limits within the range of the replicates", h.And(h.le(h.min(col), lo), h.le(hi, h.max(col)), h.le(h.min(col), hi), h.le(lo, h.max(col))))
    elif what == "nested":
        al2 = _alpha(h, "alpha2")
        h.assume(al <= al2)
        lo, hi = _ci(h, arr, hat, al, method)
        lo2, hi2 = _ci(h, arr, hat, al2, method)
        pre = h.And(_pole_ok(h, method, col, hat, al), _pole_ok(h, method, col, hat, al2))
        h.check("nested in alpha", h.Implies(pre, h.And(h.le(lo, lo2), h.le(hi2, hi))))
    elif what == "nanrow":
        lo, hi = _ci(h, arr, hat, al, method)
        for where in (0, n):
            c2 = list(col)
            c2.insert(where, NAN)
            lo2, hi2 = _ci(h, h.array(c2), hat, al, method)
            h.check("unchanged by a NaN replicate", h.And(h.eq(lo, lo2), h.eq(hi, hi2)))
    elif what == "perm":
        lo, hi = _ci(h, arr, hat, al, method)
        lo2, hi2 = _ci(h, h.array([col[i] for i in perm]), hat, al, method)
        h.check("unchanged by reordering replicates", h.And(h.eq(lo, lo2), h.eq(hi, hi2)))
    elif what == "affine":
        cc = h.const(c)
        d = h.real("d", float_atom=False)
        lo, hi = _ci(h, arr, hat, al, method)
        lo2, hi2 = _ci(h, h.array([cc * x + d for x in col]), cc * hat + d, al, method)
        h.check("equivariant under increasing affine maps", h.And(h.eq(lo2, cc * lo + d), h.eq(hi2, cc * hi + d)))
    elif what == "component":
        hat2 = h.real("hat1", float_atom=False)
        other = h.reals("o", n)
        ohat = h.real("ohat", float_atom=False)
        r1 = _ci(h, arr, h.array([hat, hat2]), al, method)
        arr2 = h.np.asarray([[cols[0][i], other[i]] for i in range(n)])
        r2 = _ci(h, arr2, h.array([hat, ohat]), al, method)
        single = _ci(h, h.array(cols[0]), hat, al, method)
        h.check("component 0 depends only on column 0", h.And(h.eq(r1[0], r2[0]), h.eq(r1[1], r2[1]), h.eq(r1[0], single[0]), h.eq(r1[1], single[1])))


def run_errors(h):
    arr = h.array(h.reals("th", 2))
    for m in ("bc", "bca"):
        try:
            h.sa.utils.bootstrap_ci(arr, None, h.const(0.1), method=m)
            h.fail(f"{m} without theta_hat must raise ValueError")
        except ValueError:
            h.check(f"{m} without theta_hat raises ValueError", True)
    try:
        h.sa.utils.bootstrap_ci(arr, h.const(0.0), h.const(0.1), method="nope")
        h.fail("unknown method must raise ValueError")
    except ValueError:
        h.check("unknown method raises ValueError", True)
