"""C15 — roc() returns genuine operating points ordered along the chosen x-axis (R-exact apart from threshold setting)."""
from .common import CFGS
from .thr import numerator

META = {
    "bounds": {"quick": {"scores": "P,N in 1..2, sorted harness with ties, easy counts {0,2}; plus integer-dtype scores in [-3,3] (2+2) with real-valued user thresholds", "user arrays": "thresholds/fnr/fpr of length <= 2 with symbolic elements, every present/absent combination",
                         "nb_points": "None, 2, 3, 5", "x_axis": "all 8 names + an unknown one", "configs": "all 4"},
               "thorough": {"scores": "P,N in 1..3", "user arrays": "as quick", "nb_points": "None, 2, 3, 5, 6"}},
    "assumptions": ["R-ideal for the threshold-setting step, R-exact for rates", "user-supplied fnr/fpr targets are arbitrary reals"],
}
OPTS = {"quick": {"query_timeout_ms": 30000}, "thorough": {"query_timeout_ms": 120000, "max_paths": 50000}}
AXES = ["fnr", "fpr", "tnr", "tpr", "far", "frr", "tar", "trr"]


def items(tier):
    out = []
    szs = [(1, 1), (2, 2)] if tier == "quick" else [(1, 1), (2, 2), (3, 2), (3, 3)]
    combos = [(t, a, b) for t in (0, 2) for a in (0, 2) for b in (0, 1)] if tier == "quick" else [(t, a, b) for t in (0, 1, 2) for a in (0, 2) for b in (0, 2)]
    for sc, ec in CFGS:
        for P, N in szs:
            for (nt, nfn, nfp) in combos:
                if nt + nfn + nfp == 0:
                    continue
                out.append({"kind": "user", "sc": sc, "ec": ec, "P": P, "N": N, "nt": nt, "nfn": nfn, "nfp": nfp,
                            "x_axis": AXES[(nt + 2 * nfn + 3 * nfp + P) % 8], "easy": [0, 0] if (nt + nfn) % 2 else [2, 1]})
            for nb in ([None, 2, 3, 5] if tier == "quick" else [None, 2, 3, 5, 6]):
                out.append({"kind": "default", "sc": sc, "ec": ec, "P": P, "N": N, "nb_points": nb, "x_axis": AXES[(P + N + (nb or 0)) % 8], "easy": [0, 2]})
        for x_axis in AXES:
            out.append({"kind": "default", "sc": sc, "ec": ec, "P": 2, "N": 1, "nb_points": None, "x_axis": x_axis, "easy": [0, 0]})
            out.append({"kind": "user", "sc": sc, "ec": ec, "P": 2, "N": 2, "nt": 1, "nfn": 1, "nfp": 1, "x_axis": x_axis, "easy": [1, 0]})
        # integer-valued scores (dtype int) with fractional user thresholds / rates: nothing is truncated to the score dtype
        out.append({"kind": "user", "sc": sc, "ec": ec, "P": 2, "N": 2, "nt": 2, "nfn": 1, "nfp": 0, "x_axis": "fnr", "easy": [0, 0], "ints": True})
        out.append({"kind": "default", "sc": sc, "ec": ec, "P": 2, "N": 2, "nb_points": 3, "x_axis": "fpr", "easy": [1, 0], "ints": True})
        out.append({"kind": "badaxis", "sc": sc, "ec": ec})
    return out


def run(h, kind, **p):
    return globals()["run_" + kind](h, **p)


def _S(h, sc, ec, P, N, easy, ints=False):
    pos, neg = (h.ints("p", P, -3, 3), h.ints("n", N, -3, 3)) if ints else (h.reals("p", P), h.reals("n", N))
    for a in (pos, neg):
        for i in range(len(a) - 1):
            h.assume(a[i] <= a[i + 1])
    S = h.sa.Scores(h.array(pos), h.array(neg), nb_easy_pos=easy[0], nb_easy_neg=easy[1], score_class=sc, equal_class=ec)
    return S, pos, neg


def _common(h, S, pos, neg, easy, sc, ec, curve, x_axis):
    thr, fnr, fpr = h.cells(curve.thresholds), h.cells(curve.fnr), h.cells(curve.fpr)
    h.check("thresholds, fnr, fpr have equal length", len(thr) == len(fnr) == len(fpr))
    P, N = len(pos) + easy[0], len(neg) + easy[1]
    for i, t in enumerate(thr):
        a, _ = numerator(h, "fnr", pos, neg, easy[0], easy[1], t, sc, ec)
        b, _ = numerator(h, "fpr", pos, neg, easy[0], easy[1], t, sc, ec)
        h.check("fnr/fpr are exactly the object's rates at the returned thresholds (direct count)", h.And(h.eq(fnr[i] * P, a), h.eq(fpr[i] * N, b)))
    view = h.cells(getattr(curve, x_axis))
    h.check(f"{x_axis} is non-decreasing along the curve", h.And([h.le(view[i], view[i + 1], 0) for i in range(len(view) - 1)]))
    tpr, tnr = h.cells(curve.tpr), h.cells(curve.tnr)
    h.check("tpr = 1 - fnr, tnr = 1 - fpr", h.And([h.eq(a + b, 1) for a, b in zip(tpr, fnr)] + [h.eq(a + b, 1) for a, b in zip(tnr, fpr)]))
    for al, base in (("frr", fnr), ("far", fpr), ("tar", tpr), ("trr", tnr)):
        h.check(f"alias {al}", h.And([h.eq(a, b, 0) for a, b in zip(h.cells(getattr(curve, al)), base)]))
    h.check("no confidence bands on a plain curve", curve.fnr_ci is None and curve.fpr_ci is None and curve.tpr_ci is None and curve.far_ci is None)
    return thr


def run_user(h, sc, ec, P, N, nt, nfn, nfp, x_axis, easy, ints=False):
    S, pos, neg = _S(h, sc, ec, P, N, easy, ints)
    ut = h.reals("ut", nt)
    ufn = h.reals("ufn", nfn, float_atom=False)
    ufp = h.reals("ufp", nfp, float_atom=False)
    kw = {}
    if nt:
        kw["thresholds"] = h.array(ut)
    if nfn:
        kw["fnr"] = h.array(ufn)
    if nfp:
        kw["fpr"] = h.array(ufp)
    curve = h.sa.roc(S, x_axis=x_axis, nb_points=7, **kw)
    thr = _common(h, S, pos, neg, easy, sc, ec, curve, x_axis)
    h.check("supplied points only: nb_points is ignored", len(thr) == nt + nfn + nfp)
    want = list(ut) + [S.threshold_at_fnr(r) for r in ufn] + [S.threshold_at_fpr(r) for r in ufp]
    for w in want:
        h.check("every supplied threshold / threshold of a supplied rate is on the curve", h.Or([h.eq(w, t, 0) for t in thr]))


def run_default(h, sc, ec, P, N, nb_points, x_axis, easy, ints=False):
    S, pos, neg = _S(h, sc, ec, P, N, easy, ints)
    curve = h.sa.roc(S, x_axis=x_axis, nb_points=nb_points)
    thr = _common(h, S, pos, neg, easy, sc, ec, curve, x_axis)
    if nb_points is None:
        h.check("nb_points=None: one point per scored sample", len(thr) == P + N)
        for s in pos + neg:
            h.check("every score is a threshold of the curve", h.Or([h.eq(s, t, 0) for t in thr]))
    else:
        h.check("exactly nb_points points", len(thr) == nb_points)


def run_badaxis(h, sc, ec):
    S, pos, neg = _S(h, sc, ec, 1, 1, [0, 0])
    for bad in ("fnrr", "x", ""):
        try:
            h.sa.roc(S, x_axis=bad, nb_points=2)
            h.fail("unknown x_axis must raise ValueError")
        except ValueError:
            h.check("unknown x_axis raises ValueError", True)
