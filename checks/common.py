"""Shared oracle helpers (written from the property texts, independent of the repository code)."""
CFGS = [("pos", "pos"), ("pos", "neg"), ("neg", "pos"), ("neg", "neg")]


def accepted(h, sc, ec, s, t):
    """documented decision rule: is a sample with score s classified positive at threshold t?"""
    if sc == "pos":
        return (s >= t) if ec == "pos" else (s > t)
    return (s <= t) if ec == "pos" else (s < t)


def oracle_cm(h, pos, neg, kp, kn, t, sc, ec):
    """(tp, fn, fp, tn) by direct counting with the documented rule."""
    tp_hard = h.count([accepted(h, sc, ec, s, t) for s in pos])
    fp = h.count([accepted(h, sc, ec, s, t) for s in neg])
    tp = tp_hard + kp
    fn = len(pos) - tp_hard
    tn = len(neg) - fp + kn
    return tp, fn, fp, tn


def cfg_name(sc, ec):
    return f"{sc}/{ec}"
