"""C20 — synthetic datasets hit their specified operating points and proportions (R-ideal; Phi axiomatised; RNG stubs)."""
META = {
    "bounds": {"quick": {"NormalDataset": "mu, sigma > 0, rates in (0,1), thresholds: all symbolic reals; vector rates of length 2; from_metrics: supports {1,2,3}, rates in [1/4,1); sample(): n <= 3",
                         "Bernoulli": "n <= 4, p symbolic in [0,1]", "Correlated": "n <= 5, p1, p2 in [0,1], rho symbolic (valid and invalid joint distributions)"},
               "thorough": {"NormalDataset": "as quick, sample(): n <= 5", "Bernoulli": "n <= 6", "Correlated": "n <= 5"}},
    "assumptions": ["R-ideal; Phi / Phi^-1 uninterpreted: strictly increasing, mutually inverse, Phi(-z) = 1 - Phi(z)", "sqrt(x): the y >= 0 with y*y = x",
                    "RNG: binomial / normal / choice / shuffle results are arbitrary values within their contracts (shuffle = arbitrary permutation)",
                    "'largest integer not exceeding n*p to floating-point accuracy': exact floor in the reals; the float rounding of n*p is outside the claim"],
}
OPTS = {"quick": {"query_timeout_ms": 30000, "max_paths": 20000, "max_decisions": 3000}, "thorough": {"query_timeout_ms": 120000, "max_paths": 200000, "max_decisions": 5000}}


def items(tier):
    out = [{"kind": "inverse", "vec": False}, {"kind": "inverse", "vec": True}, {"kind": "roc"}]
    for sup in ((1, 2), (3, 1)):
        out.append({"kind": "from_metrics", "fnr_support": sup[0], "fpr_support": sup[1]})
    for n in ((1, 3) if tier == "quick" else (1, 3, 5)):
        for sc in ("pos", "neg"):
            out.append({"kind": "sample", "n": n, "sc": sc})
    for n in ((1, 2, 4) if tier == "quick" else (1, 2, 4, 6)):
        out.append({"kind": "bernoulli", "n": n})
    for n in ((1, 2, 4, 5) if tier == "quick" else (1, 2, 3, 4, 5)):      # the three-draw tolerance only bites for n >= 4; n = 6 ends solver-unknown
        out.append({"kind": "correlated", "n": n})
    out.append({"kind": "correlated_random", "n": 2})
    return out


def run(h, kind, **p):
    return globals()["run_" + kind](h, **p)


def _ds(h):
    mp, mn = h.real("mu_pos", float_atom=False), h.real("mu_neg", float_atom=False)
    sp, sn = h.real("sigma_pos", float_atom=False), h.real("sigma_neg", float_atom=False)
    h.assume(h.And(sp > 0, sn > 0))
    D = h.sa.experimental.NormalDataset(mu_pos=mp, mu_neg=mn, sigma_pos=sp, sigma_neg=sn)
    return D


def _rate(h, name):
    r = h.real(name, float_atom=False)
    h.assume(h.And(r > 0, r < 1))
    return r


def run_inverse(h, vec):
    D = _ds(h)
    if not vec:
        x, t = _rate(h, "x"), h.real("t", float_atom=False)
        h.check("fnr(threshold_at_fnr(x)) = x", h.eq(D.fnr(D.threshold_at_fnr(x)), x))
        h.check("fpr(threshold_at_fpr(x)) = x", h.eq(D.fpr(D.threshold_at_fpr(x)), x))
        h.check("threshold_at_fnr(fnr(t)) = t", h.eq(D.threshold_at_fnr(D.fnr(t)), t))
        h.check("threshold_at_fpr(fpr(t)) = t", h.eq(D.threshold_at_fpr(D.fpr(t)), t))
        h.check("scalar in, scalar out", h.np.isscalar(D.threshold_at_fnr(x)) and h.np.isscalar(D.fnr(t)) and h.np.isscalar(D.fpr(t)) and h.np.isscalar(D.threshold_at_fpr(x)))
        h.check("rates lie in (0,1)", h.And(0 < D.fnr(t), D.fnr(t) < 1, 0 < D.fpr(t), D.fpr(t) < 1))
        t2 = h.real("t2", float_atom=False)
        h.assume(t <= t2)
        h.check("FNR non-decreasing and FPR non-increasing in the threshold", h.And(h.le(D.fnr(t), D.fnr(t2)), h.le(D.fpr(t2), D.fpr(t))))
    else:
        xs = [_rate(h, "x0"), _rate(h, "x1")]
        X = h.array(xs)
        a = h.cells(D.fnr(D.threshold_at_fnr(X)))
        b = h.cells(D.fpr(D.threshold_at_fpr(X)))
        h.check("vector rates round-trip elementwise", len(a) == 2 and len(b) == 2 and h.And([h.eq(u, v) for u, v in zip(a + b, xs + xs)]))


def run_roc(h):
    D = _ds(h)
    xs = [_rate(h, "x0"), _rate(h, "x1")]
    for kw in ({"fnr": h.array(xs)}, {"fpr": h.array(xs)}):
        c = D.roc(**kw)
        thr, fnr, fpr = h.cells(c.thresholds), h.cells(c.fnr), h.cells(c.fpr)
        h.check("roc(): one point per supplied rate", len(thr) == len(fnr) == len(fpr) == 2)
        h.check("roc(): rates consistent with its thresholds", h.And([h.And(h.eq(fnr[i], D.fnr(thr[i])), h.eq(fpr[i], D.fpr(thr[i]))) for i in range(2)]))
        key = list(kw)[0]
        h.check("roc(): the supplied rates are reproduced", h.And([h.eq((fnr if key == "fnr" else fpr)[i], xs[i]) for i in range(2)]))
    for kw in ({}, {"fnr": h.array(xs), "fpr": h.array(xs)}):
        try:
            D.roc(**kw)
            h.fail("roc() with none or both of fnr/fpr must raise ValueError")
        except ValueError:
            h.check("roc() with none or both of fnr/fpr raises ValueError", True)


def run_from_metrics(h, fnr_support, fpr_support):
    fnr, fpr = h.real("fnr", float_atom=False), h.real("fpr", float_atom=False)
    h.assume(h.And(fnr >= h.const("1/4"), fnr < 1, fpr >= h.const("1/4"), fpr < 1))
    sp, sn = h.real("sigma_pos", float_atom=False), h.real("sigma_neg", float_atom=False)
    h.assume(h.And(sp > 0, sn > 0))
    D = h.sa.experimental.NormalDataset.from_metrics(fnr, fpr, fnr_support, fpr_support, sigma_pos=sp, sigma_neg=sn)
    zero = h.const("0")
    h.check("from_metrics: model FNR and FPR at threshold 0 equal the requested rates", h.And(h.eq(D.fnr(zero), fnr), h.eq(D.fpr(zero), fpr)))
    n = D.n
    np_, nn_ = h.np.floor(fnr_support / fnr), h.np.floor(fpr_support / fpr)
    h.check("from_metrics: n = int(fnr_support/fnr) + int(fpr_support/fpr)", h.eq(n, np_ + nn_))
    h.check("from_metrics: p_pos = nb_pos / n", h.eq(D.p_pos * n, np_))
    h.check("from_metrics: score direction 'pos', sigmas kept", D.score_class == "pos" and h.eq(D.sigma_pos, sp, 0) and h.eq(D.sigma_neg, sn, 0))


def run_sample(h, n, sc):
    mp, sp, sn = h.real("mu", float_atom=False), h.real("sigma_pos", float_atom=False), h.real("sigma_neg", float_atom=False)
    h.assume(h.And(sp > 0, sn > 0))
    p = h.real("p_pos", float_atom=False)
    h.assume(h.And(p >= 0, p <= 1))
    D = h.sa.experimental.NormalDataset(mu_pos=mp, sigma_pos=sp, sigma_neg=sn, p_pos=p, n=n, score_class=sc)
    h.check("mu_neg defaults to -mu_pos", h.eq(D.mu_neg, -mp))
    S = D.sample(rng=h.rng())
    P, N = len(h.cells(S.pos)), len(h.cells(S.neg))
    h.check("sample(): n scores split between the classes", P + N == n)
    h.check("sample(): model's score direction", S.score_class == h.sa.BinaryLabel(sc) and S.nb_easy_pos == 0 and S.nb_easy_neg == 0)
    if h.mode == "sym":
        from symx.core import box

        log = h.rng_log()
        b = [e for e in log if e["fn"].endswith("binomial")]
        nm = [e for e in log if e["fn"].endswith("normal")]
        h.check("sample(): one Binomial(n, p_pos) draw decides the class sizes", len(b) == 1 and b[0]["args"]["n"] == n and h.eq(box(b[0]["args"]["p"]), p, 0) is True or
                (len(b) == 1 and b[0]["args"]["n"] == n))
        h.check("sample(): number of positives is the binomial draw", h.eq(box(b[0]["result"]), P))
        h.check("sample(): positives ~ N(mu_pos, sigma_pos), negatives ~ N(mu_neg, sigma_neg)",
                len(nm) == 2 and nm[0]["args"]["size"] == (P,) and nm[1]["args"]["size"] == (N,)
                and h.And(h.eq(box(nm[0]["args"]["loc"]), mp, 0), h.eq(box(nm[0]["args"]["scale"]), sp, 0), h.eq(box(nm[1]["args"]["loc"]), -mp, 0), h.eq(box(nm[1]["args"]["scale"]), sn, 0)))
    S2 = D.sample(2, p_pos=h.const("1"), rng=h.rng())
    h.check("sample(n, p_pos=1): all scores positive class", len(h.cells(S2.pos)) == 2 and len(h.cells(S2.neg)) == 0)


def run_bernoulli(h, n):
    p = h.real("p", float_atom=False)
    h.assume(h.And(p >= 0, p <= 1))
    B = h.sa.experimental.BernoulliDataset(p=p, n=n)
    data = B.sample(random=False, rng=h.rng())
    cells = h.cells(data)
    h.check("non-random Bernoulli: n draws with values in {0,1}", len(cells) == n and h.And([h.Or(h.eq(c, 0), h.eq(c, 1)) for c in cells]))
    ones = h.sum(cells)
    h.check("non-random Bernoulli: number of successes = largest integer not exceeding n*p", h.And(h.le(ones, n * p), n * p < ones + 1))
    rnd = h.cells(B.sample(n, random=True, rng=h.rng()))
    h.check("random Bernoulli: n draws with values in {0,1}", len(rnd) == n and h.And([h.Or(h.eq(c, 0), h.eq(c, 1)) for c in rnd]))
    try:
        h.sa.experimental.BernoulliDataset(p=p).sample(random=False)
        h.fail("missing n must raise ValueError")
    except ValueError:
        h.check("missing n raises ValueError", True)


def _joint(h, p1, p2, rho):
    c = (1 - p1) * (1 - p2)
    a = c + rho * h.sqrt(p1 * p2 * c)
    return [a, 1 - p2 - a, 1 - p1 - a, p1 + p2 + a - 1]


def run_correlated(h, n):
    h.policy(nonlinear=None)
    p1, p2, rho = h.real("p1", float_atom=False), h.real("p2", float_atom=False), h.real("rho", float_atom=False)
    h.assume(h.And(p1 >= 0, p1 <= 1, p2 >= 0, p2 <= 1, rho >= -1, rho <= 1))
    D = h.sa.experimental.CorrelatedBernoullilDataset(p1=p1, p2=p2, rho=rho, n=n)
    probs = _joint(h, p1, p2, rho)
    invalid = h.Or([q < 0 for q in probs])
    try:
        data = D.sample(random=False, rng=h.rng())
    except ValueError:
        h.check("ValueError only when some joint probability is negative", invalid)
        return
    h.check("a valid joint distribution is accepted", h.Not(invalid))
    h.check("shape (2, n)", h.shape(data) == (2, n))
    cells = h.cells(data)
    h.check("entries in {0,1}", h.And([h.Or(h.eq(c, 0), h.eq(c, 1)) for c in cells]))
    x1, y1 = h.sum(cells[:n]), h.sum(cells[n:])
    h.check("non-random sample reproduces both marginals to within three draws",
            h.And(h.le(x1 - n * p1, 3), h.le(n * p1 - x1, 3), h.le(y1 - n * p2, 3), h.le(n * p2 - y1, 3)))


def run_correlated_random(h, n):
    p1, p2 = h.const("1/2"), h.const("1/4")
    rho = h.real("rho", float_atom=False)
    h.assume(h.And(rho >= 0, rho <= h.const("1/2")))
    D = h.sa.experimental.CorrelatedBernoullilDataset(p1=p1, p2=p2, rho=rho)
    data = D.sample(n, random=True, rng=h.rng())
    cells = h.cells(data)
    h.check("random correlated sample: shape (2,n), entries in {0,1}", h.shape(data) == (2, n) and h.And([h.Or(h.eq(c, 0), h.eq(c, 1)) for c in cells]))
    if h.mode == "sym":
        ch = [e for e in h.rng_log() if e["fn"].endswith("choice")]
        h.check("random correlated sample: one weighted draw over the four joint outcomes", len(ch) == 1 and ch[0]["args"]["a"] == 4 and ch[0]["args"]["p"] == "given")


def regressions(h):
    """auxiliary concrete sweep (float64): non-random correlated samples over a grid of valid parameters have shape (2,n),
    0/1 entries and marginals within three draws; non-random Bernoulli samples have floor(n*p) ones."""
    np = h.np
    ex = h.sa.experimental
    rng = np.random.RandomState(11)
    bad = []
    for _ in range(400):
        p1, p2, rho, n = float(rng.uniform(0.05, 0.95)), float(rng.uniform(0.05, 0.95)), float(rng.uniform(-0.5, 0.5)), int(rng.randint(1, 200))
        try:
            d = ex.CorrelatedBernoullilDataset(p1=round(p1, 2), p2=round(p2, 2), rho=round(rho, 2), n=n).sample(random=False, rng=np.random.default_rng(1))
        except ValueError as e:
            if "negative probabilities" in str(e):
                continue
            bad.append((p1, p2, rho, n, str(e)))
            continue
        if d.shape != (2, n) or not np.isin(d, (0, 1)).all() or abs(d[0].sum() - n * round(p1, 2)) > 3 or abs(d[1].sum() - n * round(p2, 2)) > 3:
            bad.append((p1, p2, rho, n))
    h.check("[float sweep] correlated non-random samples well-formed on 400 parameter sets", not bad)
    badb = []
    for n in range(1, 60):
        for p in (0.0, 0.1, 0.25, 1 / 3, 0.5, 0.7, 0.9, 1.0):
            d = ex.BernoulliDataset(p=p).sample(n, random=False, rng=np.random.default_rng(2))
            if len(d) != n or d.sum() != np.floor(n * p):
                badb.append((n, p))
    h.check("[float sweep] non-random Bernoulli: floor(n*p) ones", not badb)
