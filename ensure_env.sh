#!/bin/sh
# Idempotent, offline: overlay venv on top of /venv with z3-solver (+cvc5, jsonschema) from the wheelhouse.
set -e
HERE="$(cd "$(dirname "$0")" && pwd)"
V="$HERE/.venv"
if [ ! -x "$V/bin/python" ] || ! "$V/bin/python" -c "import z3, numpy, scipy, pandas, jsonschema" >/dev/null 2>&1; then
  (
    flock 9
    if [ ! -x "$V/bin/python" ] || ! "$V/bin/python" -c "import z3, numpy, scipy, pandas, jsonschema" >/dev/null 2>&1; then
      rm -rf "$V"
      /venv/bin/python -m venv "$V" >/dev/null
      SP="$("$V/bin/python" -c 'import sysconfig; print(sysconfig.get_paths()["purelib"])')"
      echo "import site; site.addsitedir('/venv/lib/python3.12/site-packages')" > "$SP/zz_venv_overlay.pth"
      PIP_NO_INDEX=1 "$V/bin/python" -m pip install -q --no-index --find-links /opt/veriftools/wheels z3-solver cvc5 jsonschema >/dev/null 2>&1 || \
      PIP_NO_INDEX=1 "$V/bin/python" -m pip install -q --no-index --find-links /opt/veriftools/wheels z3-solver jsonschema >/dev/null
    fi
  ) 9>"$HERE/.venv.lock"
fi
exit 0
