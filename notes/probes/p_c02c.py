import z3, time, sys
n=int(sys.argv[1]); method=sys.argv[2]
raw=[z3.Real(f"x{i}") for i in range(n)]
y=[z3.Real(f"y{i}") for i in range(n)]
def sort_contract():
    cs=[]
    for i in range(n):
        le=z3.Sum([z3.If(x<=y[i],1,0) for x in raw]); lt=z3.Sum([z3.If(x<y[i],1,0) for x in raw])
        cs += [le>=i+1, lt<=i]
        cs.append(z3.Or([y[i]==x for x in raw]))
    for i in range(n-1): cs.append(y[i]<=y[i+1])
    return cs
r=z3.Real("r"); eps=z3.Real("eps"); s=y
tot=0; worst=0
for left in (True,False):
  for k in range(-1,n+1):
    sol=z3.Solver(); sol.set("timeout",120000)
    sol.add(eps>0); sol.add(sort_contract())
    for i,a in enumerate(raw):
        for b in raw[i+1:]:
            sol.add(z3.Or(a==b, a-b>eps, b-a>eps))
    tr = r if left else r - z3.RealVal(1)/n
    target=tr*n
    if k==-1: sol.add(target<0); fl=-1
    elif k==n: sol.add(target>=n); fl=n
    else: sol.add(target>=k, target<k+1); fl=k
    for frac in (False,True):
        sol.push()
        if k in (-1,n):
            if frac: sol.pop(); continue
            ce=fl; la=z3.RealVal(0)
        elif frac: sol.add(target>k); ce=k+1; la=ce-target
        else: sol.add(target==k); ce=k; la=z3.RealVal(0)
        li=min(max(fl,0),n-1); ri=min(max(ce,0),n-1)
        if method=="linear": t=la*s[li]+(1-la)*s[ri]
        elif method=="lower": t=s[li]
        else: t=s[ri]
        t=z3.If(tr<=0,s[0]-eps,t); t=z3.If(tr>=1,s[-1]+eps,t)
        # oracle counts on RAW input (documented rule), not on sorted
        below=z3.Sum([z3.If(a<t,1,0) for a in raw]); above=z3.Sum([z3.If(a<=t,1,0) for a in raw])
        rc=z3.If(r<0,0,z3.If(r>1,1,r))*n
        sol.add(z3.Not(z3.And(z3.ToReal(below)-1<=rc, rc<=z3.ToReal(above)+1)))
        t0=time.time(); res=sol.check(); dt=time.time()-t0; tot+=dt; worst=max(worst,dt)
        if str(res)!="unsat": print("  ",left,k,frac,res)
        sol.pop()
print(n,method,"order-stat sort contract","total",round(tot,2),"worst",round(worst,2))
