import numpy as np, warnings
warnings.simplefilter("ignore")
from score_analysis import Scores, roc, roc_with_ci, BootstrapConfig
rng=np.random.default_rng(3)
bad=[]
for it in range(600):
    npos,nneg=rng.integers(1,6,2); vals=rng.integers(0,6,npos+nneg).astype(float)
    kp,kn=[int(x) for x in rng.integers(0,3,2)]
    for sc in ("pos","neg"):
      for ec in ("pos","neg"):
        s=Scores(vals[:npos],vals[npos:],nb_easy_pos=kp,nb_easy_neg=kn,score_class=sc,equal_class=ec)
        for xa in ("fnr","fpr","tnr","tpr","far","frr","tar","trr"):
            kw={}
            m=it%4
            if m==0: kw=dict(nb_points=None)
            elif m==1: kw=dict(nb_points=int(rng.integers(2,9)))
            elif m==2: kw=dict(thresholds=rng.integers(-1,7,3).astype(float), fnr=rng.random(2))
            else: kw=dict(fpr=rng.random(2), fnr=np.array([0.,1.]))
            r=roc(s,x_axis=xa,**kw)
            ok=len(r.fnr)==len(r.fpr)==len(r.thresholds) and np.array_equal(r.fnr,s.fnr(r.thresholds)) and np.array_equal(r.fpr,s.fpr(r.thresholds))
            x=getattr(r,xa); ok=ok and np.all(np.diff(x)>=0)
            if m==0: ok=ok and len(r.fnr)==npos+nneg
            if m==1: ok=ok and len(r.fnr)==kw["nb_points"]
            if m==2: ok=ok and all(t in r.thresholds for t in kw["thresholds"]) and all(t in r.thresholds for t in s.threshold_at_fnr(kw["fnr"]))
            if not ok: bad.append((list(s.pos),list(s.neg),kp,kn,sc,ec,xa,kw))
print("C15 bad",len(bad),bad[:3])
bad=[]
ident=lambda s:s
for it in range(60):
    npos,nneg=rng.integers(1,6,2); vals=rng.integers(0,6,npos+nneg).astype(float)
    for sc in ("pos","neg"):
        s=Scores(vals[:npos],vals[npos:],score_class=sc)
        for cfg in (BootstrapConfig(nb_samples=20),BootstrapConfig(nb_samples=20,bootstrap_method="quantile"),BootstrapConfig(nb_samples=3,sampling_method=ident)):
            try:
                r=roc_with_ci(s,nb_points=[None,6][it%2],config=cfg)
                ok=r.fnr_ci.shape==(len(r.fnr),2)==r.fpr_ci.shape and not np.isnan(r.fnr_ci).any() and not np.isnan(r.fpr_ci).any() and np.all(r.fnr_ci[:,0]<=r.fnr_ci[:,1]) and np.all(r.fpr_ci[:,0]<=r.fpr_ci[:,1]) and r.fnr_ci.min()>=0 and r.fnr_ci.max()<=1 and r.fpr_ci.min()>=0 and r.fpr_ci.max()<=1
                if not ok: bad.append((list(s.pos),list(s.neg),sc,cfg.bootstrap_method,cfg.sampling_method if isinstance(cfg.sampling_method,str) else "ident"))
            except Exception as e: bad.append((list(s.pos),list(s.neg),sc,"EXC",type(e).__name__,str(e)[:80]))
print("C16 bad",len(bad),bad[:5])
