import numpy as np, warnings
warnings.simplefilter("ignore")
from score_analysis import Scores
rng=np.random.default_rng(5)
M=["tpr","fnr","tnr","fpr","topr","tonr"]
def rel(s,m):
    return {"tpr":s.pos,"fnr":s.pos,"tnr":s.neg,"fpr":s.neg}.get(m, np.concatenate([s.pos,s.neg]))
def N(s,m): return {"tpr":s.nb_all_pos,"fnr":s.nb_all_pos,"tnr":s.nb_all_neg,"fpr":s.nb_all_neg}.get(m,s.nb_all_samples)
bad={k:[] for k in ("round","coh","mono")}
for it in range(4000):
    npos,nneg=rng.integers(1,6,2); ties=it%2==0
    vals=(rng.integers(0,4,npos+nneg)*1.0 if ties else rng.permutation(20)[:npos+nneg]*1.0)
    kp,kn=[int(x) for x in rng.integers(0,4,2)*rng.integers(0,2,2)]
    sc=["pos","neg"][rng.integers(2)]; ec=["pos","neg"][rng.integers(2)]
    s=Scores(vals[:npos],vals[npos:],nb_easy_pos=kp,nb_easy_neg=kn,score_class=sc,equal_class=ec)
    m=M[rng.integers(6)]; n=N(s,m)
    r=float(rng.integers(-2,2*n+3))/ (2*n) if it%3 else rng.uniform(-.2,1.2)
    f=getattr(s,m); T=getattr(s,"threshold_at_"+m)
    allt=np.unique(np.concatenate([rel(s,m),np.nextafter(rel(s,m),np.inf),np.nextafter(rel(s,m),-np.inf)]))
    lo,hi=f(allt).min(),f(allt).max()
    rc=min(max(r,lo),hi)
    t=T(r); below=f(np.nextafter(t,-np.inf)); above=f(np.nextafter(t,np.inf)); at=f(t)
    vmin=min(below,above,at); vmax=max(below,above,at)
    if not (vmin-1/n-1e-9<=rc<=vmax+1/n+1e-9): bad["round"].append((list(s.pos),list(s.neg),kp,kn,sc,ec,m,r,t,below,at,above))
    tl,th=T(r,method="lower"),T(r,method="higher")
    sent=[np.nextafter(rel(s,m).min(),-np.inf),np.nextafter(rel(s,m).max(),np.inf)]
    ok=(tl in rel(s,m) or tl in sent) and (th in rel(s,m) or th in sent) and f(tl)<=f(th)+1e-12 and min(tl,th)-1e-9<=t<=max(tl,th)+1e-9
    if not ok: bad["coh"].append((list(s.pos),list(s.neg),kp,kn,sc,ec,m,r,tl,t,th,f(tl),f(th)))
    r2=r+rng.uniform(0,.3); t2=T(r2)
    inc = (f(allt.max())>=f(allt.min()))
    if (t2-t)*(1 if inc else -1) < -1e-9: bad["mono"].append((list(s.pos),list(s.neg),kp,kn,sc,ec,m,r,r2,t,t2))
for k,v in bad.items(): print("C02",k,len(v),v[:2])
