import numpy as np, warnings, itertools
warnings.simplefilter("ignore")
from score_analysis import Scores
rng=np.random.default_rng(0)
# C06 zero-EER with ties across classes
for sc in ("pos","neg"):
  for ec in ("pos","neg"):
    s=Scores(pos=[1,2] if sc=="pos" else [0,1], neg=[0,1] if sc=="pos" else [1,2], score_class=sc, equal_class=ec)
    t,e=s.eer(); print("C06 tie",sc,ec,"eer",e,"t",t,"fpr",s.fpr(t),"fnr",s.fnr(t))
# adjacent floats
a=1.0; b=np.nextafter(1.0,2)
for ec in ("pos","neg"):
    s=Scores(pos=[b,2],neg=[0,a],equal_class=ec); t,e=s.eer(); print("C06 adjacent",ec,e,t==a,t==b,s.fpr(t),s.fnr(t))
# C06 crossing on random tie-free data
worst=0; bad=[]
for it in range(3000):
    npos,nneg=rng.integers(1,7,2); vals=rng.permutation(40)[:npos+nneg].astype(float)
    kp,kn=rng.integers(0,4,2)*rng.integers(0,2,2)
    for sc in ("pos","neg"):
      for ec in ("pos","neg"):
        s=Scores(vals[:npos],vals[npos:],nb_easy_pos=int(kp),nb_easy_neg=int(kn),score_class=sc,equal_class=ec)
        t,e=s.eer(); fpr,fnr=s.fpr(t),s.fnr(t)
        d1=abs(fpr-e)*s.nb_all_neg; d2=abs(fnr-e)*s.nb_all_pos
        if max(d1,d2)>1+1e-9 or not (0<=e<=1) or e>min(s.hard_pos_ratio,s.hard_neg_ratio)+1e-12: bad.append((list(vals[:npos]),list(vals[npos:]),int(kp),int(kn),sc,ec,t,e,fpr,fnr))
print("C06 crossing bad",len(bad)); print(bad[:3])
