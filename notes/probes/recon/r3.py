import numpy as np, pandas as pd, warnings
warnings.simplefilter("ignore")
from score_analysis import showbias, BootstrapConfig, Scores, GroupScores
rng=np.random.default_rng(2)
df=pd.DataFrame({"g":["a","a","a","b","b","b","b","a"],"h":["x","y","x","y","x","y","x","y"],"l":[1,1,0,1,0,1,1,0],"s":[.9,.4,.2,.8,.6,.3,.7,.1]})
def ident(s): return s
for norm in (None,"by_overall","by_min"):
  for bm in ("quantile","bc","bca"):
    try:
        bf=showbias(df,"g","l","s","fnr",normalize=norm,bootstrap_ci=True,bootstrap_config=BootstrapConfig(nb_samples=5,bootstrap_method=bm,sampling_method=ident),threshold=[0.5,0.35])
        ok=np.allclose(bf.lower.values,bf.values.values,equal_nan=True) and np.allclose(bf.upper.values,bf.values.values,equal_nan=True)
        print("identity sampler",norm,bm,"CI==value:",ok, "" if ok else (bf.values.values.tolist(),bf.lower.values.tolist(),bf.upper.values.tolist()))
    except Exception as e: print("identity sampler",norm,bm,"EXC",type(e).__name__,e)
# single group multi threshold
df1=df.assign(g="a")
try:
    bf=showbias(df1,"g","l","s","fnr",bootstrap_ci=True,bootstrap_config=BootstrapConfig(nb_samples=5,bootstrap_method="quantile"),threshold=[0.5,0.35,0.2]); print("G=1,T=3 ok",bf.lower.shape)
except Exception as e: print("G=1,T=3 EXC",type(e).__name__,e)
try:
    bf=showbias(df,"g","l","s","fnr",bootstrap_ci=True,bootstrap_config=BootstrapConfig(nb_samples=5,bootstrap_method="quantile"),threshold=0.5); print("G=2,T scalar ok",bf.lower.shape, bf.values.shape)
except Exception as e: print("G=2 scalar EXC",type(e).__name__,e)
# underscore in group
df2=df.assign(g=["a_1","a_1","a_1","b","b","b","b","a_1"])
try:
    bf=showbias(df2,["g","h"],"l","s","fnr",threshold=[0.5]); print(bf.values)
except Exception as e: print("underscore EXC",type(e).__name__,e)
df3=df.assign(g=["a_x","a_x","a","a","b","b","b","b"],h=["y","y","x_y","x_y","x","y","x","y"])
try:
    bf=showbias(df3,["g","h"],"l","s","fnr",threshold=[0.5]); print(bf.values)
except Exception as e: print("collision EXC",type(e).__name__,e)
# by_min smallest row is 1
bf=showbias(df,"g","l","s","fnr",normalize="by_min",threshold=[0.5,0.35]); print("by_min",bf.values.values.tolist())
bf=showbias(df,["g","h"],"l","s","fnr",threshold=[0.5]); print(bf.values)
