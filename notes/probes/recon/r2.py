import numpy as np, warnings
warnings.simplefilter("ignore")
from score_analysis import Scores
from score_analysis.utils import invert_pl_function
rng=np.random.default_rng(1)
def mw(s):
    P=list(s.pos); N=list(s.neg); kp,kn=s.nb_easy_pos,s.nb_easy_neg
    sign=1 if s.score_class=="pos" else -1
    tot=0.0
    for p in P:
        for n in N:
            tot+= 1.0 if sign*p>sign*n else 0.5 if p==n else 0.0
    # easy pos beat all negs; easy neg lose to all pos
    tot+= kp*(len(N)+kn) + len(P)*kn
    return tot/((len(P)+kp)*(len(N)+kn))
bad=[];bad2=[];bad3=[]
SKIP=True
for it in range(0):
    npos,nneg=rng.integers(1,6,2)
    ties = it%2==0
    vals=(rng.integers(0,5,npos+nneg) if ties else rng.permutation(30)[:npos+nneg]).astype(float)
    kp,kn=[int(x) for x in rng.integers(0,3,2)]
    for sc in ("pos","neg"):
      for ec in ("pos","neg"):
        s=Scores(vals[:npos],vals[npos:],nb_easy_pos=kp,nb_easy_neg=kn,score_class=sc,equal_class=ec)
        a=s.auc()
        if abs(a-mw(s))>1e-9: bad.append((list(s.pos),list(s.neg),kp,kn,sc,ec,a,mw(s)))
        if not ties:
            lo,mid,hi=sorted(rng.random(3))
            x=s.auc(lo,mid)+s.auc(mid,hi)-s.auc(lo,hi)
            if abs(x)>1e-9 or s.auc(lo,hi)>hi-lo+1e-12: bad2.append((list(s.pos),list(s.neg),kp,kn,sc,ec,lo,mid,hi,x))
            c=s.auc(lo,hi,y_axis="fnr")-((hi-lo)-s.auc(lo,hi))
            d=s.auc(lo,hi,x_axis="tnr")-s.auc(1-hi,1-lo)
            e=s.auc(x_axis="tpr",y_axis="fpr")-(1-s.auc())
            if max(abs(c),abs(d),abs(e))>1e-9: bad3.append((list(s.pos),list(s.neg),kp,kn,sc,ec,lo,hi,c,d,e))
print("C07 MW bad",len(bad),bad[:2]); print("C07 additive bad",len(bad2),bad2[:2]); print("C07 compl bad",len(bad3),bad3[:2])
# C17
bad=[]
for it in range(5000):
    n=rng.integers(2,7); x=np.sort(rng.integers(0,8,n)).astype(float); y=rng.integers(0,5,n).astype(float)
    for i in range(1,n):
        if x[i]==x[i-1]: y[i]=y[i-1]
    t=float(rng.integers(-1,6))+ (0.5 if it%3==0 else 0)
    s=np.ravel(invert_pl_function(x,y,t))
    f=lambda z: np.interp(z,x,y)
    crosses = (y.min()<=t<=y.max())
    ok = s.ndim==1 and len(s)>=1 and np.all(np.diff(s)>0) and np.all((s>=x[0])&(s<=x[-1]))
    if crosses: ok = ok and np.allclose(f(s),t)
    else: ok = ok and len(s)==1 and abs(f(s[0])-t)==np.min(np.abs(y-t))
    if not ok: bad.append((list(x),list(y),t,list(s)))
print("C17 bad",len(bad),bad[:4])
