import z3, time, sys
F=z3.Float64(); rm=z3.RNE()
r=z3.FP("r",F); h=z3.FP("h",F)
one=z3.FPVal(1.0,F); zero=z3.FPVal(0.0,F)
def fmax(a,b): return z3.If(z3.fpGEQ(a,b),a,b)
def fmin(a,b): return z3.If(z3.fpLEQ(a,b),a,b)
s=z3.Solver(); s.set("timeout",600000)
s.add(z3.fpGEQ(r,one), z3.Not(z3.fpIsInf(r)), z3.fpGT(h,zero), z3.fpLEQ(h,one))
e=z3.fpSub(rm,one,h)          # easy ratio = 1.0 - hard ratio
x=fmax(z3.fpSub(rm,r,e),zero)
q=fmin(z3.fpDiv(rm,x,h),one)
s.add(z3.Not(z3.fpEQ(q,one)))
open("fp_tpr1.smt2","w").write("(set-logic QF_FP)\n"+s.to_smt2())
t0=time.time(); res=s.check(); print("z3 any-h:",res,round(time.time()-t0,1))
if str(res)=="sat":
    m=s.model(); print(m)
