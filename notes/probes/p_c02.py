# Probe: hand-encoding of _invert_increasing_function (real arithmetic) + round trip, to time z3.
import z3, time, sys
def sortnet(xs):
    xs=list(xs); n=len(xs)
    for i in range(n):
        for j in range(n-1-i):
            a,b=xs[j],xs[j+1]
            xs[j],xs[j+1]=z3.If(a<=b,a,b),z3.If(a<=b,b,a)
    return xs
def select(xs, idx):
    e=xs[-1]
    for i in range(len(xs)-2,-1,-1):
        e=z3.If(idx==i,xs[i],e)
    return e
def invert(scores, r, left_cont, method, eps):
    n=len(scores)
    tr = r if left_cont else r - z3.RealVal(1)/n
    target = tr*n
    fl = z3.ToInt(target); 
    ce = z3.If(z3.ToReal(fl)==target, fl, fl+1)
    la = z3.ToReal(ce)-target
    li = z3.If(fl>n-1,n-1,z3.If(fl<0,0,fl)); ri=z3.If(ce>n-1,n-1,z3.If(ce<0,0,ce))
    sl, sr = select(scores,li), select(scores,ri)
    if method=="linear": t = la*sl+(1-la)*sr
    elif method=="lower": t=sl
    else: t=sr
    lo = scores[0]-eps; hi=scores[-1]+eps
    t = z3.If(tr<=0, lo, t); t=z3.If(tr>=1, hi, t)
    return t
n=int(sys.argv[1]); method=sys.argv[2]
raw=[z3.Real(f"s{i}") for i in range(n)]
r=z3.Real("r"); eps=z3.Real("eps")
s=sortnet(raw)
for left in (True,False):
    sol=z3.Solver(); sol.set("timeout",120000)
    sol.add(eps>0)
    # gap axiom: no score within (x-eps,x) or (x,x+eps)
    for a in raw:
        for b in raw:
            sol.add(z3.Or(a==b, a-b>eps, b-a>eps))
    t=invert(s,r,left,method,eps)
    # metric: F(t)=P(s<t) if left else P(s<=t)
    cnt=z3.Sum([z3.If((a<t) if left else (a<=t),1,0) for a in raw])
    rc=z3.If(r<0,0,z3.If(r>1,1,r))
    # property: |cnt/n - rc| <= 1/n  <=> |cnt - rc*n| <= 1
    d=z3.ToReal(cnt)-rc*n
    sol.add(z3.Not(z3.And(d<=1,d>=-1)))
    t0=time.time(); res=sol.check(); print(n,method,"left" if left else "right",res,round(time.time()-t0,2))
    if str(res)=="sat": print(sol.model())
