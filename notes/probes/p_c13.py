import z3, time
a,s1,s2,z0=z3.Reals("a s1 s2 z0")
def g(s): return z0 + s/(1-a*s)
sol=z3.Solver(); sol.set("timeout",60000)
sol.add(s1<=s2, a*s1<1, a*s1>-1, a*s2<1, a*s2>-1, z3.Not(g(s1)<=g(s2)))
t0=time.time(); print("bca monotone under pole condition:",sol.check(),round(time.time()-t0,2))
# without pole condition -> expect sat
sol=z3.Solver(); sol.add(s1<=s2, 1-a*s1!=0, 1-a*s2!=0, z3.Not(g(s1)<=g(s2)))
t0=time.time(); print("without pole condition:",sol.check(),round(time.time()-t0,2))
# formula agreement with uninterpreted Phi, mutant: factor 2 dropped
R=z3.RealSort(); Phi=z3.Function("Phi",R,R); Pinv=z3.Function("Pinv",R,R)
p0,al=z3.Reals("p0 al")
code = Phi(2*Pinv(p0)+Pinv(al/2)); oracle=Phi(2*Pinv(p0)+Pinv(al/2)); mutant=Phi(Pinv(p0)+Pinv(al/2))
for name,c in (("pristine",code),("mutant",mutant)):
    sol=z3.Solver(); sol.add(c!=oracle); t0=time.time(); print("bc formula",name,sol.check(),round(time.time()-t0,3))
# C17: interpolation identity  f(z)=t on crossing segment
x0,x1,y0,y1,t=z3.Reals("x0 x1 y0 y1 t")
la=(t-y0)/(y1-y0); z=(1-la)*x0+la*x1
fz=y0+(z-x0)/(x1-x0)*(y1-y0)
sol=z3.Solver(); sol.set("timeout",60000); sol.add(x0<x1, y0<=t, y1>t, z3.Not(z3.And(fz==t, z>=x0, z<x1)))
t0=time.time(); print("C17 segment identity:",sol.check(),round(time.time()-t0,2))
# C04: mirrored CI radicands equal
tp,fn=z3.Reals("tp fn"); p=tp+fn
sol=z3.Solver(); sol.add(tp>=0,fn>=0,p>0, (tp/p)*(1-tp/p)/p != (fn/p)*(1-fn/p)/p)
t0=time.time(); print("C04 radicand symmetry:",sol.check(),round(time.time()-t0,2))
