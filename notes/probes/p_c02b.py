import z3, time, sys
def sortnet(xs):
    xs=list(xs); n=len(xs)
    for i in range(n):
        for j in range(n-1-i):
            a,b=xs[j],xs[j+1]
            xs[j],xs[j+1]=z3.If(a<=b,a,b),z3.If(a<=b,b,a)
    return xs
n=int(sys.argv[1]); method=sys.argv[2]; presorted = len(sys.argv)>3
raw=[z3.Real(f"s{i}") for i in range(n)]
r=z3.Real("r"); eps=z3.Real("eps")
s=raw if presorted else sortnet(raw)
tot=0; worst=0
for left in (True,False):
  for k in range(-1,n+1):   # floor(target) = k ; k=-1 stands for "<0", n for ">=n"
    sol=z3.Solver(); sol.set("timeout",120000)
    sol.add(eps>0)
    if presorted:
        for i in range(n-1): sol.add(raw[i]<=raw[i+1])
    for i,a in enumerate(raw):
        for b in raw[i+1:]:
            sol.add(z3.Or(a==b, a-b>eps, b-a>eps))
    tr = r if left else r - z3.RealVal(1)/n
    target=tr*n
    if k==-1: sol.add(target<0); fl=-1
    elif k==n: sol.add(target>=n); fl=n
    else: sol.add(target>=k, target<k+1); fl=k
    # ceil: fork too
    for frac in (False,True):
        sol.push()
        if k in (-1,n):
            if frac: sol.pop(); continue
            ce=fl  # irrelevant, special cases
            la=z3.RealVal(0)
        elif frac: sol.add(target>k); ce=k+1; la=ce-target
        else: sol.add(target==k); ce=k; la=z3.RealVal(0)
        li=min(max(fl,0),n-1); ri=min(max(ce,0),n-1)
        if method=="linear": t=la*s[li]+(1-la)*s[ri]
        elif method=="lower": t=s[li]
        else: t=s[ri]
        t=z3.If(tr<=0,s[0]-eps,t); t=z3.If(tr>=1,s[-1]+eps,t)
        below=z3.Sum([z3.If(a<t,1,0) for a in raw]); above=z3.Sum([z3.If(a<=t,1,0) for a in raw])
        rc=z3.If(r<0,0,z3.If(r>1,1,r))*n
        sol.add(z3.Not(z3.And(z3.ToReal(below)-1<=rc, rc<=z3.ToReal(above)+1)))
        t0=time.time(); res=sol.check(); dt=time.time()-t0; tot+=dt; worst=max(worst,dt)
        if str(res)!="unsat": print("  ",left,k,frac,res, sol.model() if str(res)=="sat" else "")
        sol.pop()
print(n,method,"presorted" if presorted else "sortnet","total",round(tot,2),"worst",round(worst,2))
