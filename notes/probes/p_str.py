import z3, time
a,b=z3.Strings("a b"); sep=z3.StringVal("_")
key=z3.Concat(a,sep,b)
i=z3.IndexOf(key,sep,0)
p0=z3.SubString(key,0,i); rest=z3.SubString(key,i+1,z3.Length(key))
two_parts=z3.Not(z3.Contains(rest,sep))   # split gives exactly 2 parts iff rest has no sep
good=z3.And(two_parts,p0==a,rest==b)
for L in (2,4,8):
  for assume_clean in (False,True):
    s=z3.Solver(); s.set("timeout",60000)
    s.add(z3.Length(a)<=L,z3.Length(b)<=L)
    if assume_clean: s.add(z3.Not(z3.Contains(a,sep)),z3.Not(z3.Contains(b,sep)))
    s.add(z3.Not(good))
    t0=time.time(); r=s.check(); print("len<=",L,"clean" if assume_clean else "any",r,round(time.time()-t0,2), s.model() if str(r)=="sat" else "")
# collision: two different pairs map to same key
a2,b2=z3.Strings("a2 b2")
s=z3.Solver(); s.add(z3.Length(a)<=3,z3.Length(b)<=3,z3.Length(a2)<=3,z3.Length(b2)<=3, z3.Or(a!=a2,b!=b2), z3.Concat(a,sep,b)==z3.Concat(a2,sep,b2))
t0=time.time(); print("collision",s.check(),round(time.time()-t0,2),s.model())
