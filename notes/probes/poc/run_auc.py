import sys, time, warnings; warnings.simplefilter("ignore")
sys.path.insert(0,"/tmp/probe/poc")
import z3, symnp, loader
from symnp import SV, explore, lift, fold
import sa_sym.scores as S
Scores=S.Scores
P,N=int(sys.argv[1]),int(sys.argv[2]); kp,kn=int(sys.argv[3]),int(sys.argv[4]); partial=len(sys.argv)>5
symnp.SORT="fork"
# determinacy folding hooked onto the rate calls used by auc (engine feature in the real design)
def folded(method):
    def g(self, thr):
        r = method(self, thr)
        return symnp.ndarray([fold(v) for v in r.data], r.shape) if isinstance(r, symnp.ndarray) else fold(r)
    return g
for name in ("tpr","fpr","fnr","tnr"): setattr(Scores, name, folded(getattr(Scores, name)))
def real(v):
    from fractions import Fraction
    if isinstance(v, Fraction): return z3.Q(v.numerator, v.denominator)
    if z3.is_expr(v): return z3.ToReal(v) if z3.is_int(v) else v
    return z3.RealVal(repr(v))
t00=time.time(); tot=0; res={}
for sc in ("pos","neg"):
  for ec in ("pos","neg"):
    pos=[z3.Real(f"p{i}") for i in range(P)]; neg=[z3.Real(f"n{i}") for i in range(N)]
    lo,up=z3.Reals("lo up")
    allv=pos+neg
    asm=[pos[i]<=pos[i+1] for i in range(P-1)]+[neg[i]<=neg[i+1] for i in range(N-1)]+[symnp.EPS>0]
    asm+=[z3.Or(a==b,a-b>=2*symnp.EPS,b-a>=2*symnp.EPS) for i,a in enumerate(allv) for b in allv[i+1:]]   # simple gap model (no adjacent floats) for the probe
    if partial: asm+=[lo>=0,lo<=up,up<=1]+[a!=b for a in pos for b in neg]
    def run():
        s=Scores([SV(x) for x in pos],[SV(x) for x in neg],nb_easy_pos=kp,nb_easy_neg=kn,score_class=sc,equal_class=ec,is_sorted=True)
        return s.auc(SV(lo),SV(up)) if partial else s.auc()
    t0=time.time(); paths=explore(run,assumptions=asm); tot+=len(paths)
    for pc,a in paths:
        sol=z3.Solver(); sol.set("timeout",30000); sol.add(asm); sol.add(pc)
        beats=(lambda p,n:p>n) if sc=="pos" else (lambda p,n:p<n)
        if not partial:
            mw=z3.Sum([z3.If(beats(p,n),z3.RealVal(1),z3.If(p==n,z3.RealVal("1/2"),z3.RealVal(0))) for p in pos for n in neg])+kp*(N+kn)+P*kn
            sol.add(real(lift(a))*((P+kp)*(N+kn))!=mw)
        else:
            sol.add(z3.Or(real(lift(a))<0, real(lift(a))>up-lo))
        r=str(sol.check()); res[r]=res.get(r,0)+1
        if r=="sat" and res[r]<3: print("   SAT",sc,ec,sol.model())
    print(sc,ec,"paths",len(paths),round(time.time()-t0,1),"s")
print("AUC probe",P,N,kp,kn,"partial" if partial else "full","paths",tot,res,round(time.time()-t00,1),"s")
