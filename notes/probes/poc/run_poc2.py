import sys, time, warnings; warnings.simplefilter("ignore")
sys.path.insert(0, "/tmp/probe/poc")
import z3, symnp, loader
from symnp import SV, explore, lift
import sa_sym.scores as S       # real source of /repo, rewritten imports; only scores/cm/metrics/utils needed
Scores = S.Scores
def rule(sc, ec):
    return {("pos","pos"):lambda a,b:a>=b,("pos","neg"):lambda a,b:a>b,("neg","pos"):lambda a,b:a<=b,("neg","neg"):lambda a,b:a<b}[(sc,ec)]

t0=time.time()
n=3
for sc in ("pos","neg"):
  for ec in ("pos","neg"):
    pos=[z3.Real(f"p{i}") for i in range(n)]; r=z3.Real("r"); kp=z3.Int("kp")
    asm=[pos[i]<pos[i+1] for i in range(n-1)]+[symnp.EPS>0, kp>=0, kp<=50]+[pos[i+1]-pos[i]>symnp.EPS for i in range(n-1)]
    def run():
        s = Scores([SV(x) for x in pos],[0.0],nb_easy_pos=SV(kp),score_class=sc,equal_class=ec)
        th = s.threshold_at_fnr(SV(r))
        return th, s.cm(th).matrix
    paths = explore(run, assumptions=asm)
    bad=0
    for pc,(th,m) in paths:
        fn=lift(m[0,1]); tot=n+kp
        sol=z3.Solver(); sol.set("timeout",60000); sol.add(asm); sol.add(pc)
        # |fn/tot - r| <= 1/tot
        rn=r*z3.ToReal(tot); rc=z3.If(rn>n, z3.RealVal(n), z3.If(rn<0, z3.RealVal(0), rn)); d=z3.ToReal(fn)-rc
        sol.add(z3.Not(z3.And(d<=1,d>=-1)))
        res=str(sol.check())
        if res!="unsat": bad+=1; print("   ",res, sol.model() if res=="sat" else "")
    print(sc,ec,"paths",len(paths),"non-unsat",bad)
print("C02 poc",round(time.time()-t0,2),"s")
