# PROBE: real eer()/cm()/rates + contract stubs for _find_root and threshold_at_fpr/fnr (uninterpreted monotone T with C02 bracket axioms)
import sys, time, warnings; warnings.simplefilter("ignore")
sys.path.insert(0, "/tmp/probe/poc")
import z3, symnp, loader
from symnp import SV, explore, lift
import sa_sym.scores as S
Scores=S.Scores
P,N=int(sys.argv[1]),int(sys.argv[2]); kp,kn=int(sys.argv[3]),int(sys.argv[4]); mutate=len(sys.argv)>5
R=z3.RealSort()
Tfpr=z3.Function("Tfpr",R,R); Tfnr=z3.Function("Tfnr",R,R)
cnt=[0]; XTOL=z3.Real("xtol")
def real(v):
    if z3.is_expr(v): return z3.ToReal(v) if z3.is_int(v) else v
    return z3.RealVal(repr(v))
def assume(c):
    ex=symnp.Explorer.cur; c=lift(c); c=z3.BoolVal(bool(c)) if not z3.is_expr(c) else c
    ex.solver.add(c); ex.pc.append(c)
calls={"fpr":[], "fnr":[]}
def mk_stub(name, T, rate, M, hi, dirn):
    # contract of threshold_at_<rate>(x): t=T(x); |rate(t) - clip(x,0,hi)| <= 1/M ; monotone (dirn=+1 increasing in x, -1 decreasing) -- instantiated pairwise
    def stub(self, x, *, method="linear"):
        xe=real(lift(x)); t=SV(T(xe))
        for (x2,t2) in calls[name]:
            c = z3.Implies(x2<=xe, (lift(t2)<=lift(t)) if dirn(self)>0 else (lift(t2)>=lift(t)))
            d = z3.Implies(xe<=x2, (lift(t)<=lift(t2)) if dirn(self)>0 else (lift(t)>=lift(t2)))
            assume(c); assume(d)
        calls[name].append((xe,t))
        m=Scores.cm(self,t).matrix
        num=real(lift(m[1,0] if name=="fpr" else m[0,1]))
        xc=z3.If(xe<0,0,z3.If(xe>hi(self),z3.RealVal(repr(hi(self))),xe))
        assume(z3.And(num - xc*M(self) <= 1, num - xc*M(self) >= -1))
        return t
    return stub
Scores.threshold_at_fpr = mk_stub("fpr",Tfpr,"fpr",lambda s:s.nb_all_neg,lambda s:s.hard_neg_ratio,lambda s:-1 if s.score_class=="pos" else 1)
Scores.threshold_at_fnr = mk_stub("fnr",Tfnr,"fnr",lambda s:s.nb_all_pos,lambda s:s.hard_pos_ratio,lambda s:1 if s.score_class=="pos" else -1)
def root_stub(f, xa, xe, find_first, xtol=1e-10):
    cnt[0]+=1
    a=SV(z3.Real(f"a{cnt[0]}")); b=SV(z3.Real(f"b{cnt[0]}"))
    assume(a>=xa); assume(b<=xe); assume(a<=b); assume(b-a<XTOL)
    assume(f(a)<=0); assume(f(b)>=0)
    return (a+b)/2
Scores._find_root=staticmethod(root_stub)
if mutate:
    import inspect
    # emulate calibration mutant min->max in the cap by patching the loaded source text
    src=inspect.getsource(S.Scores.eer).replace("max_eer = min(self.hard_pos_ratio, self.hard_neg_ratio)","max_eer = max(self.hard_pos_ratio, self.hard_neg_ratio)")
    import textwrap; ns={}; exec(textwrap.dedent(src), S.__dict__, ns); Scores.eer=ns["eer"]
tot=0;t00=time.time()
for sc in ("pos","neg"):
  for ec in ("pos","neg"):
    pos=[z3.Real(f"p{i}") for i in range(P)]; neg=[z3.Real(f"n{i}") for i in range(N)]
    asm=[pos[i]<pos[i+1] for i in range(P-1)]+[neg[i]<neg[i+1] for i in range(N-1)]+[XTOL>0]
    asm+=[a!=b for a in pos for b in neg]
    def run():
        cnt[0]=0; calls["fpr"].clear(); calls["fnr"].clear()
        s=Scores([SV(x) for x in pos],[SV(x) for x in neg],nb_easy_pos=kp,nb_easy_neg=kn,score_class=sc,equal_class=ec,is_sorted=True)
        t,e=s.eer(); m=s.cm(t).matrix
        return t,e,m,min(s.hard_pos_ratio,s.hard_neg_ratio)
    t0=time.time(); paths=explore(run,assumptions=asm); res={}
    for pc,(t,e,m,cap) in paths:
        sol=z3.Solver(); sol.set("timeout",60000); sol.add(asm); sol.add(pc)
        e_=real(lift(e)); fp=real(lift(m[1,0])); fn=real(lift(m[0,1]))
        d1=fp-e_*(N+kn); d2=fn-e_*(P+kp)
        prop=z3.And(e_>=0,e_<=1,e_<=z3.RealVal(repr(cap)),d1<=1,d1>=-1,d2<=1,d2>=-1)
        sol.add(z3.Not(prop)); r=str(sol.check()); res[r]=res.get(r,0)+1
        if r=="sat" and not mutate: print("   SAT", sol.model())
    tot+=len(paths); print(sc,ec,"paths",len(paths),res,round(time.time()-t0,1),"s")
print("EER modular probe",P,N,kp,kn,"mutant" if mutate else "pristine","paths",tot,round(time.time()-t00,1),"s")
