import sys, time, warnings; warnings.simplefilter("ignore")
sys.path.insert(0, "/tmp/probe/poc")
import z3, symnp, loader
from symnp import SV, explore, lift, wrap
import sa_sym.scores as S
Scores = S.Scores
P,N=int(sys.argv[1]),int(sys.argv[2]); kp,kn=int(sys.argv[3]),int(sys.argv[4])
cnt=[0]
XTOL=z3.Real('xtol')
def root_stub(f, xa, xe, find_first, xtol=1e-10):
    # contract stub = bisection post-condition: midpoint of [a,b] in [xa,xe], b-a<xtol, f(a)<=0<=f(b)
    cnt[0]+=1; ex=symnp.Explorer.cur
    a = SV(z3.Real(f"a{cnt[0]}")); b = SV(z3.Real(f"b{cnt[0]}"))
    def assume(c):
        c = lift(c); c = z3.BoolVal(bool(c)) if not z3.is_expr(c) else c
        ex.solver.add(c); ex.pc.append(c)
    assume(a >= xa); assume(b <= xe); assume(a <= b); assume(b - a < XTOL)
    assume(f(a) <= 0); assume(f(b) >= 0)
    return (a + b) / 2
Scores._find_root = staticmethod(root_stub)
symnp.GATHER='fork'
tot_paths=0; t00=time.time()
for sc in ("pos","neg"):
  for ec in ("pos","neg"):
    pos=[z3.Real(f"p{i}") for i in range(P)]; neg=[z3.Real(f"n{i}") for i in range(N)]
    allv=pos+neg
    asm=[pos[i]<pos[i+1] for i in range(P-1)]+[neg[i]<neg[i+1] for i in range(N-1)]+[symnp.EPS>0, XTOL>0, XTOL*1000000<1]
    asm+=[v>=-8 for v in pos+neg]+[v<=8 for v in pos+neg]+[symnp.EPS*1000<1]
    asm+=[z3.Or(a-b>z3.RealVal(1)/8,b-a>z3.RealVal(1)/8) for i,a in enumerate(allv) for b in allv[i+1:]]
    def run():
        cnt[0]=0
        s=Scores([SV(x) for x in pos],[SV(x) for x in neg],nb_easy_pos=kp,nb_easy_neg=kn,score_class=sc,equal_class=ec,is_sorted=True)
        t,e=s.eer()
        m=s.cm(t).matrix
        return t,e,m
    t0=time.time()
    try:
        paths=explore(run,assumptions=asm)
    except Exception as ex:
        import traceback; traceback.print_exc(); break
    bad=0; unk=0
    for pc,(t,e,m) in paths:
        sol=z3.Solver(); sol.set("timeout",60000); sol.add(asm); sol.add(pc)
        fp=lift(m[1,0]); fn=lift(m[0,1]); e_=lift(e)
        e_ = z3.RealVal(repr(e_)) if isinstance(e_,(int,float)) else e_
        def real(v): return z3.ToReal(v) if z3.is_expr(v) and z3.is_int(v) else (z3.RealVal(v) if not z3.is_expr(v) else v)
        d1=real(fp)-e_*(N+kn); d2=real(fn)-e_*(P+kp)
        prop=z3.And(e_>=0,e_<=1,d1<=1,d1>=-1,d2<=1,d2>=-1)
        sol.add(z3.Not(prop)); r=str(sol.check())
        if r=="sat": bad+=1; print("   SAT",sc,ec,sol.model())
        elif r!="unsat": unk+=1
    tot_paths+=len(paths)
    print(sc,ec,"paths",len(paths),"sat",bad,"unknown",unk,round(time.time()-t0,1),"s")
print("EER probe",P,N,kp,kn,"total paths",tot_paths,round(time.time()-t00,1),"s")
