# THROWAWAY PROBE: load /repo/score_analysis source with imports rewritten to symbolic shims.
import ast, sys, types, importlib.abc, importlib.util, pathlib
ROOT = pathlib.Path("/repo/score_analysis")
REWRITE = {"numpy": "symnp", "pandas": "sympd", "scipy": "symscipy", "scipy.stats": "symscipy.stats", "math": "math"}
class T(ast.NodeTransformer):
    def visit_Import(self, node):
        for a in node.names:
            if a.name in REWRITE:
                if a.asname is None: a.asname = a.name.split(".")[0]
                a.name = REWRITE[a.name].split(".")[0] if a.asname == a.name.split(".")[0] and "." in a.name else REWRITE[a.name]
        return node
    def visit_ImportFrom(self, node):
        if node.level == 0 and node.module:
            if node.module == "numpy.typing": return ast.parse("ArrayLike = object").body[0]
            if node.module.split(".")[0] == "score_analysis": node.module = "sa_sym" + node.module[len("score_analysis"):]
            elif node.module in REWRITE: node.module = REWRITE[node.module]
        return node
class Finder(importlib.abc.MetaPathFinder, importlib.abc.Loader):
    def find_spec(self, name, path, target=None):
        if name != "sa_sym" and not name.startswith("sa_sym."): return None
        rel = name.split(".")[1:]
        p = ROOT.joinpath(*rel)
        if p.is_dir(): return importlib.util.spec_from_loader(name, self, is_package=True, origin=str(p/"__init__.py"))
        f = p.with_suffix(".py")
        if f.exists(): return importlib.util.spec_from_loader(name, self, origin=str(f))
    def create_module(self, spec): return None
    def exec_module(self, mod):
        src = pathlib.Path(mod.__spec__.origin).read_text()
        tree = ast.fix_missing_locations(T().visit(ast.parse(src)))
        if mod.__spec__.submodule_search_locations is not None: mod.__path__ = [str(pathlib.Path(mod.__spec__.origin).parent)]
        exec(compile(tree, mod.__spec__.origin, "exec"), mod.__dict__)
sys.meta_path.insert(0, Finder())
