# PROBE C06 tier (ii): scores = unit-spaced interleavings (concrete), bisection outcomes a,b symbolic (interval contract)
import sys, time, warnings, itertools; warnings.simplefilter("ignore")
sys.path.insert(0, "/tmp/probe/poc")
import z3, symnp, loader
from symnp import SV, explore, lift
import sa_sym.scores as S
Scores=S.Scores
P,N=int(sys.argv[1]),int(sys.argv[2]); kp,kn=int(sys.argv[3]),int(sys.argv[4])
symnp.GATHER="fork"
XTOL=z3.Real("xtol"); cnt=[0]
def assume(c):
    ex=symnp.Explorer.cur; c=lift(c); c=z3.BoolVal(bool(c)) if not z3.is_expr(c) else c
    ex.solver.add(c); ex.pc.append(c)
def root_stub(f, xa, xe, find_first, xtol=1e-10):
    cnt[0]+=1; a=SV(z3.Real(f"a{cnt[0]}")); b=SV(z3.Real(f"b{cnt[0]}"))
    assume(a>=xa); assume(b<=xe); assume(a<=b); assume(b-a<XTOL); assume(f(a)<=0); assume(f(b)>=0)
    return (a+b)/2
Scores._find_root=staticmethod(root_stub)
def real(v):
    if z3.is_expr(v): return z3.ToReal(v) if z3.is_int(v) else v
    return z3.RealVal(repr(v))
t00=time.time(); tot=0; res={}
# nextafter model: EPS symbolic tiny; unit spacing => gap 1 >> EPS
asm=[symnp.EPS>0, symnp.EPS*1000<1, XTOL>0, XTOL*1000000<1]
for combo in itertools.combinations(range(P+N),P):
    pos=[float(i) for i in combo]; neg=[float(i) for i in range(P+N) if i not in combo]
    for sc in ("pos","neg"):
      for ec in ("pos","neg"):
        def run():
            cnt[0]=0
            s=Scores(pos,neg,nb_easy_pos=kp,nb_easy_neg=kn,score_class=sc,equal_class=ec)
            t,e=s.eer(); m=s.cm(t).matrix
            return t,e,m,min(s.hard_pos_ratio,s.hard_neg_ratio)
        paths=explore(run,assumptions=asm); tot+=len(paths)
        for pc,(t,e,m,cap) in paths:
            sol=z3.Solver(); sol.set("timeout",30000); sol.add(asm); sol.add(pc)
            e_=real(lift(e)); fp=real(lift(m[1,0])); fn=real(lift(m[0,1]))
            d1=fp-e_*(N+kn); d2=fn-e_*(P+kp)
            tol=XTOL*(P+N+kp+kn)   # bisection tolerance carried through
            prop=z3.And(e_>=0,e_<=1,e_<=z3.RealVal(repr(cap)),d1<=1+tol,d1>=-1-tol,d2<=1+tol,d2>=-1-tol)
            sol.add(z3.Not(prop)); r=str(sol.check()); res[r]=res.get(r,0)+1
            if r=="sat" and res[r]<=3:
                mo=sol.model(); print("  SAT",pos,neg,sc,ec,"e=",mo.eval(e_),"fp",mo.eval(fp),"fn",mo.eval(fn))
print("EER grid probe",P,N,kp,kn,"interleavings",len(list(itertools.combinations(range(P+N),P))),"paths",tot,res,round(time.time()-t00,1),"s")
