# THROWAWAY PROBE: minimal z3-backed numpy model, just enough for Scores.cm / threshold_at_*.
import z3, itertools, math as _math
from fractions import Fraction
def _zc(o):
    return z3.Q(o.numerator, o.denominator) if isinstance(o, Fraction) else o

class Fork(Exception): pass

class Explorer:
    cur = None
    def __init__(self):
        self.solver = z3.Solver(); self.solver.set('timeout',5000); self.prefix = []; self.trace = []; self.pc = []
    def decide(self, cond):
        cond = z3.simplify(cond)
        if z3.is_true(cond): return True
        if z3.is_false(cond): return False
        i = len(self.trace)
        if i < len(self.prefix):
            v = self.prefix[i]
        else:
            # default: try True first if feasible
            self.solver.push(); self.solver.add(cond); ok = str(self.solver.check()) != "unsat"; self.solver.pop()
            v = ok
        # feasibility of chosen side
        c = cond if v else z3.Not(cond)
        self.solver.push(); self.solver.add(c)
        if str(self.solver.check()) == "unsat":
            self.solver.pop(); raise Fork()
        self.solver.pop()
        self.solver.add(c); self.pc.append(c); self.trace.append(v)
        return v

def explore(fn, assumptions=()):
    """DFS over decision prefixes by re-execution. yields (pc, result)."""
    stack = [[]]; out = []
    while stack:
        prefix = stack.pop()
        ex = Explorer(); ex.prefix = prefix; Explorer.cur = ex
        for a in assumptions: ex.solver.add(a)
        try:
            res = fn(); out.append((list(ex.pc), res))
        except Fork:
            pass
        # schedule siblings for decisions made beyond prefix
        for i in range(len(prefix), len(ex.trace)):
            if ex.trace[i]:
                stack.append(ex.trace[:i] + [False])
    return out

def _toint(x):
    return x if isinstance(x,int) else (wrap(z3.ToInt(lift(x))) if isinstance(x,SV) else int(x))
class NF(float):
    def astype(s,t): return int(s) if t is int else s
    def item(s): return float(s)
class NI(int):
    def astype(s,t): return s
    def item(s): return int(s)
class SV:
    """symbolic scalar: z3 Int/Real/Bool"""
    def __init__(self, e): self.e = e
    def _bin(self, o, f):
        o = o.e if isinstance(o, SV) else _zc(o)
        return SV(f(self.e, o))
    def __add__(s,o): return s._bin(o, lambda a,b:a+b)
    __radd__=__add__
    def __sub__(s,o): return s._bin(o, lambda a,b:a-b)
    def __rsub__(s,o): return s._bin(o, lambda a,b:b-a)
    def __mul__(s,o): return s._bin(o, lambda a,b:a*b)
    __rmul__=__mul__
    def __truediv__(s,o):
        return s._bin(o, lambda a,b:(z3.ToReal(a) if z3.is_int(a) else a)/(z3.ToReal(b) if z3.is_expr(b) and z3.is_int(b) else b))
    def __rtruediv__(s,o): return SV((_zc(o) if isinstance(o,Fraction) else z3.RealVal(o))/ (z3.ToReal(s.e) if z3.is_int(s.e) else s.e))
    def __lt__(s,o): return s._bin(o, lambda a,b:a<b)
    def __le__(s,o): return s._bin(o, lambda a,b:a<=b)
    def __gt__(s,o): return s._bin(o, lambda a,b:a>b)
    def __ge__(s,o): return s._bin(o, lambda a,b:a>=b)
    def __eq__(s,o): return s._bin(o, lambda a,b:a==b)
    def __ne__(s,o): return s._bin(o, lambda a,b:a!=b)
    __hash__ = None
    def __neg__(s): return SV(-s.e)
    def astype(s,t): return _toint(s) if t is int else s
    def item(s): return s
    def __bool__(s): return Explorer.cur.decide(s.e)
    def __index__(s):
        # enumerate by forking on equality with successive candidates
        ex = Explorer.cur
        for k in range(0, 64):
            if ex.decide(s.e == k): return k
        raise RuntimeError("index bound")
        k = 0
        # fork: value == k or not (then other candidates)
        for _ in range(64):
            if ex.decide(s.e == k): return k
            ex.solver.push(); ex.solver.check(); k = ex.solver.model().eval(s.e, model_completion=True).as_long(); ex.solver.pop()
        raise RuntimeError("index bound")

def lift(x): return x.e if isinstance(x, SV) else x
def wrap(e):
    if z3.is_expr(e):
        e = z3.simplify(e)
        if z3.is_int_value(e): return e.as_long()
        if z3.is_rational_value(e): return Fraction(e.numerator_as_long(), e.denominator_as_long())
        if z3.is_true(e): return True
        if z3.is_false(e): return False
        return SV(e)
    return e
def ite(c, a, b):
    c = lift(c)
    if c is True: return a
    if c is False: return b
    a, b = lift(a), lift(b)
    def z(v):
        if z3.is_expr(v): return v
        if isinstance(v,bool): return z3.BoolVal(v)
        if isinstance(v,int): return z3.IntVal(v)
        if isinstance(v,Fraction): return z3.Q(v.numerator, v.denominator)
        return z3.RealVal(repr(v)) if v==v and abs(v)!=float('inf') else v
    a, b = z(a), z(b)
    if z3.is_int(a) and z3.is_real(b): a = z3.ToReal(a)
    if z3.is_int(b) and z3.is_real(a): b = z3.ToReal(b)
    return wrap(z3.If(c, a, b))

inf = float("inf"); nan = float("nan"); newaxis = None

class ndarray:
    def __init__(self, data, shape): self.data = list(data); self.shape = tuple(shape)
    @property
    def ndim(self): return len(self.shape)
    @property
    def size(self): return len(self.data)
    def __len__(self): return self.shape[0]
    def _idx(self, key):
        """returns (flat index list, result shape) for basic+ellipsis+int indexing"""
        if not isinstance(key, tuple): key = (key,)
        n_e = sum(1 for k in key if k is Ellipsis)
        nspec = sum(1 for k in key if k is not Ellipsis and k is not None)
        full = []
        for k in key:
            if k is Ellipsis: full += [slice(None)] * (self.ndim - nspec)
            else: full.append(k)
        while sum(1 for k in full if k is not None) < self.ndim: full.append(slice(None))
        ranges = []; shape = []; d = 0
        for k in full:
            if k is None: shape.append(1); continue
            n = self.shape[d]; d += 1
            if isinstance(k, slice): r = list(range(*k.indices(n))); ranges.append(r); shape.append(len(r))
            else:
                k = int(k); k = k + n if k < 0 else k; ranges.append([k])
        strides = []; s = 1
        for n in reversed(self.shape): strides.insert(0, s); s *= n
        flat = [sum(i*st for i, st in zip(ix, strides)) for ix in itertools.product(*ranges)]
        return flat, tuple(shape)
    def __getitem__(self, key):
        if isinstance(key, ndarray) :
            # integer-array gather (possibly symbolic) on 1-d self
            assert self.ndim == 1
            out = [select(self.data, k) for k in key.data]
            return ndarray(out, key.shape) if key.shape != () else out[0]
        if isinstance(key, SV): return select(self.data, key)
        if isinstance(key, int) and not isinstance(key, bool) and self.ndim == 1: return self.data[key]
        flat, shape = self._idx(key)
        if shape == () : return self.data[flat[0]]
        return ndarray([self.data[i] for i in flat], shape)
    def __setitem__(self, key, val):
        if isinstance(key, (bool, SV)):
            v = val.data[0] if isinstance(val, ndarray) else val
            self.data = [ite(key, v, old) for old in self.data]; return
        if isinstance(key, ndarray):  # boolean mask assign
            v = val.data if isinstance(val, ndarray) else [val]*self.size
            if len(v)==1: v = v*self.size
            self.data = [ite(m, x, old) for m, x, old in zip(key.data, v, self.data)]; return
        flat, shape = self._idx(key)
        v = broadcast_to(asarray(val), shape).data
        for i, x in zip(flat, v): self.data[i] = x
    def _ew(self, o, f):
        a, b = broadcast(self, asarray(o)); r = ndarray([wrap(f(x, y)) for x, y in zip(a.data, b.data)], a.shape)
        return r.data[0] if r.shape == () else r
    def __add__(s,o): return s._ew(o, lambda a,b:a+b)
    def __radd__(s,o): return s._ew(o, lambda a,b:b+a)
    def __iadd__(s,o):
        r = s+o; s.data = r.data if isinstance(r, ndarray) else [r]; return s
    def __sub__(s,o): return s._ew(o, lambda a,b:a-b)
    def __rsub__(s,o): return s._ew(o, lambda a,b:b-a)
    def __mul__(s,o): return s._ew(o, lambda a,b:a*b)
    def __rmul__(s,o): return s._ew(o, lambda a,b:b*a)
    def __truediv__(s,o): return s._ew(o, lambda a,b:a/b)
    def __le__(s,o): return s._ew(o, lambda a,b:a<=b)
    def __lt__(s,o): return s._ew(o, lambda a,b:a<b)
    def __ge__(s,o): return s._ew(o, lambda a,b:a>=b)
    def __gt__(s,o): return s._ew(o, lambda a,b:a>b)
    def __ne__(s,o): return s._ew(o, lambda a,b:a!=b)
    def __eq__(s,o): return s._ew(o, lambda a,b:a==b)
    __hash__ = None
    def astype(self, t):
        if t is int: return ndarray([x if isinstance(x,int) else wrap(z3.ToInt(lift(x))) if isinstance(x,SV) else int(x) for x in self.data], self.shape)
        return ndarray(self.data, self.shape)
    def item(self): return self.data[0]
    def __iter__(self):
        for i in range(self.shape[0]): yield self[i]

GATHER = "ite"
def select(xs, idx, internal=False):
    if not isinstance(idx, SV): return xs[idx]
    if GATHER == "fork" and not internal:
        for k in range(len(xs)-1):
            if Explorer.cur.decide(idx.e == k): return xs[k]
        return xs[len(xs)-1]
    e = xs[-1]
    for i in range(len(xs)-2, -1, -1): e = ite(idx == i, xs[i], e)
    return e
def asarray(x, dtype=None):
    if isinstance(x, ndarray): return x
    if isinstance(x, (list, tuple, range)):
        x = list(x)
        if x and isinstance(x[0], (list, tuple, ndarray)):
            subs = [asarray(e) for e in x]; return ndarray([v for s in subs for v in s.data], (len(subs),)+subs[0].shape)
        return ndarray(x, (len(x),))
    return ndarray([x], ())
array = asarray
def broadcast_to(a, shape):
    if a.shape == tuple(shape): return a
    nd = len(shape); ash = (1,)*(nd-a.ndim)+a.shape
    strides=[]; s=1
    for n in reversed(ash): strides.insert(0, s if n!=1 else 0); s*=n
    out=[a.data[sum(i*st for i,st in zip(ix,strides))] for ix in itertools.product(*[range(n) for n in shape])]
    return ndarray(out, shape)
def broadcast(a, b):
    nd = max(a.ndim, b.ndim); sa=(1,)*(nd-a.ndim)+a.shape; sb=(1,)*(nd-b.ndim)+b.shape
    shape = tuple(max(x,y) for x,y in zip(sa,sb)); return broadcast_to(a,shape), broadcast_to(b,shape)
def sort(a):
    xs = list(a.data); n = len(xs)
    for i in range(n):
        for j in range(n-1-i):
            c = xs[j] <= xs[j+1]; xs[j], xs[j+1] = ite(c, xs[j], xs[j+1]), ite(c, xs[j+1], xs[j])
    return ndarray(xs, a.shape)
def searchsorted(a, v, side="left"):
    v = asarray(v); n = len(a.data)
    def one(key):
        if n == 0: return 0
        lo, hi = 0, n
        for _ in range(_math.ceil(_math.log2(n+1))+1):
            active = lo < hi; mid = lo + (hi - lo)//2 if isinstance(lo,int) and isinstance(hi,int) else wrap(lift(lo) + (lift(hi)-lift(lo))/2)
            x = select(a.data, (min(mid, n-1) if isinstance(mid, int) else mid), internal=True); c = (x < key) if side == "left" else (x <= key)
            lo2 = ite(c, mid+1, lo); hi2 = ite(c, hi, mid)
            lo = ite(active, lo2, lo); hi = ite(active, hi2, hi)
        return lo
    return ndarray([one(k) for k in v.data], v.shape)
def empty(shape, dtype=None):
    n=1
    for s in shape: n*=s
    return ndarray([0]*n, shape)
def concatenate(arrs):
    arrs=[asarray(a) for a in arrs]; return ndarray([x for a in arrs for x in a.data], (sum(len(a.data) for a in arrs),))
def isscalar(x): return isinstance(x, (int, float, SV))
def _ufunc(f):
    def g(a, b=None):
        if b is None:
            a = asarray(a); r = ndarray([f(x) for x in a.data], a.shape); return r.data[0] if r.shape == () else r
        a, b = broadcast(asarray(a), asarray(b)); r = ndarray([f(x, y) for x, y in zip(a.data, b.data)], a.shape); return r.data[0] if r.shape == () else r
    return g
def _nw(v):
    return NI(v) if isinstance(v,int) and not isinstance(v,bool) else (NF(v) if isinstance(v,float) else v)
maximum = _ufunc(lambda a, b: _nw(ite(a >= b, a, b)))
minimum = _ufunc(lambda a, b: _nw(ite(a <= b, a, b)))
def _floor(x):
    if isinstance(x, SV): return wrap(z3.ToReal(z3.ToInt(x.e)))
    return NF(_math.floor(x))
def _ceil(x):
    if isinstance(x, SV):
        f = z3.ToInt(x.e); return wrap(z3.If(z3.ToReal(f) == x.e, z3.ToReal(f), z3.ToReal(f+1)))
    return NF(_math.ceil(x))
floor = _ufunc(_floor); ceil = _ufunc(_ceil)
EPS = z3.Real("ulp")
def nextafter(x, d):
    x = asarray(x);
    out = [wrap(lift(v) + (EPS if d > 0 else -EPS)) for v in x.data]
    return ndarray(out, x.shape) if x.shape != () else out[0]
def full_like(a, v, dtype=None): a = asarray(a); return ndarray([v]*a.size, a.shape)
def divide(a, b, out=None, where=None):
    a, b = broadcast(asarray(a), asarray(b)); w = broadcast_to(asarray(where), a.shape).data if where is not None else [True]*a.size
    o = out.data if out is not None else [None]*a.size
    res = []
    for x, y, m, d in zip(a.data, b.data, w, o):
        if isinstance(m, SV): m = bool(m)   # NaN-ness is path-concrete: fork on the mask
        if m is False: res.append(d); continue
        q = wrap(z3.ToReal(lift(x)) / z3.ToReal(lift(y))) if isinstance(x, SV) or isinstance(y, SV) else (Fraction(x) / Fraction(y) if y != 0 else nan)
        res.append(q if m is True else ("ITE", m, q, d))
    return ndarray(res, a.shape)

def _abs(x): return ite(x >= 0, x, -x)
abs = _ufunc(_abs)
def isclose(a, b, rtol=1e-05, atol=1e-08): return _abs(a - b) <= atol + rtol * _abs(b)

# ---- additions for the AUC probe ----
SORT = "ite"
def _fork_sort(xs):
    # insertion sort deciding comparisons by path forking -> concrete permutation per path
    out = []
    for v in xs:
        i = len(out)
        while i > 0 and (v < out[i-1]): i -= 1     # SV.__bool__ forks
        out.insert(i, v)
    return out
_sort_ite = sort
def sort(a):
    if SORT == "fork": return ndarray(_fork_sort(list(a.data)), a.shape)
    return _sort_ite(a)
def fold(v):
    """determinacy folding: replace a symbolic value by its constant if PC entails a unique value"""
    if not isinstance(v, SV): return v
    ex = Explorer.cur; s = ex.solver
    if str(s.check()) != "sat": return v
    c = s.model().eval(v.e, model_completion=True)
    s.push(); s.add(v.e != c); r = str(s.check()); s.pop()
    if r == "unsat":
        return wrap(c)
    return v
def _nd_flatten(self): return ndarray(list(self.data), (len(self.data),))
ndarray.flatten = _nd_flatten
_old_getitem = ndarray.__getitem__
def _getitem(self, key):
    if isinstance(key, slice) and any(isinstance(k, SV) for k in (key.start, key.stop)):
        key = slice(key.start.__index__() if isinstance(key.start, SV) else key.start, key.stop.__index__() if isinstance(key.stop, SV) else key.stop, key.step)
    return _old_getitem(self, key)
ndarray.__getitem__ = _getitem
_old_nextafter = nextafter
def nextafter(x, d):
    x = asarray(x); d = asarray(d)
    if d.ndim == 2:   # [[-inf],[inf]] broadcast against (n,)
        rows = []
        for dd in d.data: rows += [wrap(lift(v) + (EPS if dd > 0 else -EPS)) for v in x.data]
        return ndarray(rows, (len(d.data), len(x.data)))
    return _old_nextafter(x, d.data[0])
_old_concat = concatenate
def concatenate(arrs):
    return _old_concat([a if isinstance(a, (ndarray, list, tuple)) else [a] for a in arrs])
def trapezoid(y, x):
    q = lambda v: Fraction(v) if isinstance(v, float) else v
    y = [q(v) for v in asarray(y).data]; x = [q(v) for v in asarray(x).data]
    tot = 0
    for i in range(len(x)-1): tot = tot + (x[i+1]-x[i])*(y[i]+y[i+1])/2
    return tot
