class DataFrame: pass
