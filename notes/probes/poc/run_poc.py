import sys, time, warnings; warnings.simplefilter("ignore")
sys.path.insert(0, "/tmp/probe/poc")
import z3, symnp, loader
from symnp import SV, explore, lift
import sa_sym.scores as S       # real source of /repo, rewritten imports; only scores/cm/metrics/utils needed
Scores = S.Scores
def rule(sc, ec):
    return {("pos","pos"):lambda a,b:a>=b,("pos","neg"):lambda a,b:a>b,("neg","pos"):lambda a,b:a<=b,("neg","neg"):lambda a,b:a<b}[(sc,ec)]
t0=time.time(); nq=0
npos,nneg=4,4
for sc in ("pos","neg"):
  for ec in ("pos","neg"):
    pos=[z3.Real(f"p{i}") for i in range(npos)]; neg=[z3.Real(f"n{i}") for i in range(nneg)]
    t=z3.Real("t"); kp,kn=z3.Ints("kp kn")
    def run():
        s = Scores([SV(x) for x in pos],[SV(x) for x in neg],nb_easy_pos=SV(kp),nb_easy_neg=SV(kn),score_class=sc,equal_class=ec)
        return s.cm(SV(t)).matrix
    paths = explore(run, assumptions=[kp>=0,kn>=0])
    for pc,m in paths:
        r=rule(sc,ec)
        otp=z3.Sum([z3.If(r(x,t),1,0) for x in pos])+kp; ofp=z3.Sum([z3.If(r(x,t),1,0) for x in neg])
        want=[otp, npos-(otp-kp), ofp, nneg-ofp+kn]
        got=[lift(m[0,0]),lift(m[0,1]),lift(m[1,0]),lift(m[1,1])]
        sol=z3.Solver(); sol.add(pc); sol.add(kp>=0,kn>=0); sol.add(z3.Not(z3.And([g==w for g,w in zip(got,want)])))
        res=sol.check(); nq+=1
        print(sc,ec,"paths",len(paths),"cm==rule:",res)
print("C01 poc",round(time.time()-t0,2),"s",nq,"queries")

# threshold_at_fnr round trip on sorted symbolic input, symbolic easy count
t0=time.time()
n=3
for sc in ("pos","neg"):
  for ec in ("pos","neg"):
    pos=[z3.Real(f"p{i}") for i in range(n)]; r=z3.Real("r"); kp=z3.Int("kp")
    asm=[pos[i]<pos[i+1] for i in range(n-1)]+[symnp.EPS>0, kp>=0, kp<=3, r>=0, r<=1]+[pos[i+1]-pos[i]>symnp.EPS for i in range(n-1)]
    def run():
        s = Scores([SV(x) for x in pos],[0.0],nb_easy_pos=SV(kp),score_class=sc,equal_class=ec)
        th = s.threshold_at_fnr(SV(r))
        return th, s.cm(th).matrix
    paths = explore(run, assumptions=asm)
    bad=0
    for pc,(th,m) in paths:
        fn=lift(m[0,1]); tot=n+kp
        sol=z3.Solver(); sol.set("timeout",60000); sol.add(asm); sol.add(pc)
        # |fn/tot - r| <= 1/tot
        d=z3.ToReal(fn)-r*z3.ToReal(tot)
        sol.add(z3.Not(z3.And(d<=1,d>=-1)))
        res=str(sol.check())
        if res!="unsat": bad+=1; print("   ",res, sol.model() if res=="sat" else "")
    print(sc,ec,"paths",len(paths),"non-unsat",bad)
print("C02 poc",round(time.time()-t0,2),"s")
