import z3, time, sys
F=None
def sortnet(xs):
    xs=list(xs); n=len(xs)
    for i in range(n):
        for j in range(n-1-i):
            a,b=xs[j],xs[j+1]
            c=a<=b
            xs[j],xs[j+1]=z3.If(c,a,b),z3.If(c,b,a)
    return xs
def sel(xs,idx):
    e=xs[-1]
    for i in range(len(xs)-2,-1,-1): e=z3.If(idx==i,xs[i],e)
    return e
def binsearch(arr,key,side):
    n=len(arr)
    if n==0: return z3.IntVal(0)
    lo,hi=z3.IntVal(0),z3.IntVal(n)
    import math
    for _ in range(max(1,math.ceil(math.log2(n+1)))+1):
        active=lo<hi
        mid=lo+(hi-lo)/2
        v=sel(arr,mid)
        c = v<key if side=="left" else v<=key
        lo2=z3.If(c,mid+1,lo); hi2=z3.If(c,hi,mid)
        lo=z3.If(active,lo2,lo); hi=z3.If(active,hi2,hi)
    return lo
npos,nneg=int(sys.argv[1]),int(sys.argv[2])
pos=[z3.Real(f"p{i}") for i in range(npos)]; neg=[z3.Real(f"n{i}") for i in range(nneg)]
t=z3.Real("t"); kp,kn=z3.Ints("kp kn")
tot=0
for sc in ("pos","neg"):
  for ec in ("pos","neg"):
    sol=z3.Solver(); sol.set("timeout",300000)
    pass
    sol.add(kp>=0,kn>=0)
    sp,sn=sortnet(pos),sortnet(neg)
    if sc=="pos": side="left" if ec=="pos" else "right"
    else: side="right" if ec=="pos" else "left"
    pb=binsearch(sp,t,side); nb=binsearch(sn,t,side)
    pa=npos-pb; na=nneg-nb
    if sc=="pos": tp,fn,fp,tn=pa,pb,na,nb
    else: tp,fn,fp,tn=pb,pa,nb,na
    tp=tp+kp; tn=tn+kn
    rule={("pos","pos"):(lambda a,b:a>=b),("pos","neg"):(lambda a,b:a>b),("neg","pos"):(lambda a,b:a<=b),("neg","neg"):(lambda a,b:a<b)}[(sc,ec)]
    otp=z3.Sum([z3.If(rule(v,t),1,0) for v in pos])+kp if pos else kp
    ofp=z3.Sum([z3.If(rule(v,t),1,0) for v in neg]) if neg else z3.IntVal(0)
    ofn=npos-(otp-kp); otn=nneg-ofp+kn
    sol.add(z3.Not(z3.And(tp==otp,fn==ofn,fp==ofp,tn==otn)))
    t0=time.time(); r=sol.check(); dt=time.time()-t0; tot+=dt
    print(npos,nneg,sc,ec,r,round(dt,2))
print("total",round(tot,2))
