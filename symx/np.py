"""symx.np — namespace seen by the rewritten repository code as `np` (implementation in _npimpl)."""
from ._npimpl import *  # noqa: F401,F403
from . import _npimpl as _impl
from ._npimpl import (np_sum as sum, np_min as min, np_max as max, np_any as any, np_all as all, np_abs as abs,  # noqa: A001
                      _ret, _select, _cast, _dt, _shape, _prod, _sort_perm, _entailed_sorted, r_or, r_and)
from . import nprandom as random  # noqa: F401

_impl.random = random


def __getattr__(name):
    # policies live in _npimpl; anything else missing is outside the model
    if name in ("GATHER", "SORT", "SEARCH", "FORK_CAP"):
        return getattr(_impl, name)
    if name == "trapz":
        raise AttributeError(name)  # NumPy 2.x: the repository's try/except picks np.trapezoid
    raise AttributeError(f"symx.np has no attribute {name!r} (outside the NumPy model)")
