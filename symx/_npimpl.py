"""symx.np — a z3-backed model of the part of NumPy that score-analysis uses.

Arrays have a concrete shape; cells are raw values (see symx.core).  Basic indexing yields
views that share the cell buffer, everything else copies (as NumPy does)."""
from __future__ import annotations

import itertools
import math as _math
from fractions import Fraction

import z3

from . import core
from .core import (F, I, Q, SV, Unsupported, box, decide, fold, is_special, is_sym, ite, lift_float, raw, sort_of,
                   to_z3, wrap, r_add, r_sub, r_mul, r_div, r_neg, r_cmp, r_abs, r_floor, r_ceil, r_rint, r_sqrt,
                   r_pow, r_and, r_or, r_xor, r_not, r_floordiv, r_mod, r_trunc_int, r_to_float, r_to_bool,
                   concretize_int)

inf = _math.inf
nan = _math.nan
pi = Fraction(_math.pi)
newaxis = None

# ---- policies (set by harnesses) ---------------------------------------------------------
GATHER = "ite"      # "ite" | "fork"
SORT = "ite"        # "ite" | "fork"   (used when order is not entailed by the path condition)
SEARCH = "auto"     # "auto" (count if sortedness is entailed, else bisect) | "bisect"
FORK_CAP = 64
FOLD = False        # determinacy folding of searchsorted counts (replace a term by its constant when the PC entails one)


def set_policy(gather=None, sort=None, search=None, fold=None):
    global GATHER, SORT, SEARCH, FOLD
    if gather:
        GATHER = gather
    if sort:
        SORT = sort
    if search:
        SEARCH = search
    if fold is not None:
        FOLD = bool(fold)


# ---- dtype ---------------------------------------------------------------------------------
class dtype:
    def __init__(self, kind):
        if isinstance(kind, dtype):
            kind = kind.kind
        self.kind = _dt(kind)

    def __eq__(self, other):
        try:
            return self.kind == _dt(other)
        except Unsupported:
            return False

    def __hash__(self):
        return hash(self.kind)

    @property
    def itemsize(self):
        return {"b": 1, "i": 8, "f": 8}.get(self.kind, 8)

    def __repr__(self):
        return {"b": "dtype('bool')", "i": "dtype('int64')", "f": "dtype('float64')", "U": "dtype('<U')",
                "O": "dtype('O')"}[self.kind]

    @property
    def name(self):
        return {"b": "bool", "i": "int64", "f": "float64", "U": "str", "O": "object"}[self.kind]

    @property
    def type(self):
        return {"b": bool, "i": int, "f": float, "U": str, "O": object}[self.kind]


def _dt(t):
    if t is None:
        return None
    if isinstance(t, dtype):
        return t.kind
    if t is bool or t == "bool" or t == "b" or t == "?":
        return "b"
    if t is int or t in ("int", "int64", "int32", "i", "i8", "intp", "uint8", "uint64"):
        return "i"
    if t is float or t in ("float", "float64", "float32", "f", "f8", "d"):
        return "f"
    if t is str or t in ("str", "U", "<U"):
        return "U"
    if t is object or t in ("object", "O"):
        return "O"
    try:
        import numpy as _np

        k = _np.dtype(t).kind
        return {"b": "b", "i": "i", "u": "i", "f": "f", "U": "U", "O": "O"}[k]
    except Exception:
        raise Unsupported(f"dtype {t!r}")


float64 = float
int64 = int
bool_ = bool
intp = int
ndarray = None  # defined below


def _cast(v, k):
    if k is None or k == "O":
        return v
    if k == "i":
        return r_trunc_int(v)
    if k == "f":
        return r_to_float(v)
    if k == "b":
        return r_to_bool(v)
    if k == "U":
        if is_sym(v):
            if v.sort() == z3.StringSort():
                return v
            raise Unsupported("astype(str) of symbolic number")
        return v if isinstance(v, str) else str(v)
    raise Unsupported(f"cast to {k}")


def _join_kinds(kinds):
    ks = set(kinds)
    if not ks:
        return "f"
    if "O" in ks:
        return "O"
    if "U" in ks:
        return "U" if ks == {"U"} else "O"
    if "f" in ks:
        return "f"
    if "i" in ks:
        return "i"
    return "b"


def _prod(shape):
    n = 1
    for s in shape:
        n *= s
    return n


def _strides(shape):
    st, s = [], 1
    for n in reversed(shape):
        st.insert(0, s)
        s *= n
    return st


# ---- the array --------------------------------------------------------------------------------
class ndarray:  # noqa: F811
    __array_priority__ = 100
    __hash__ = None

    def __init__(self, buf, ix, shape, dt=None):
        self.buf = buf
        self.ix = ix
        self.shape = tuple(shape)
        assert len(ix) == _prod(self.shape), (len(ix), self.shape)
        if dt is None and ix:
            # NumPy fixes the dtype at creation: a numeric array never changes kind through later assignments
            k = _join_kinds(sort_of(buf[i]) for i in ix)
            if k in ("b", "i", "f"):
                dt = k
        self._dt = dt

    # -- construction helpers
    @staticmethod
    def new(cells, shape, dt=None):
        cells = list(cells)
        return ndarray(cells, list(range(len(cells))), shape, dt)

    @property
    def data(self):
        b = self.buf
        return [b[i] for i in self.ix]

    @property
    def dtype(self):
        return dtype(self.kind)

    @property
    def kind(self):
        if self._dt is not None:
            return self._dt
        return _join_kinds(sort_of(c) for c in self.data) if self.ix else "f"

    @property
    def ndim(self):
        return len(self.shape)

    @property
    def size(self):
        return len(self.ix)

    @property
    def T(self):
        return transpose(self)

    @property
    def flat(self):
        return iter(box(c) for c in self.data)

    def __len__(self):
        if not self.shape:
            raise TypeError("len() of unsized object")
        return self.shape[0]

    def __iter__(self):
        if not self.shape:
            raise TypeError("iteration over a 0-d array")
        for i in range(self.shape[0]):
            yield self[i]

    def __repr__(self):
        return f"symarray(shape={self.shape}, {self.data!r})"

    def __bool__(self):
        if self.size != 1:
            if core.CONCRETE[0] and self.kind == "b":
                # conformance mode only: numpy.testing.assert_equal(obj, list) evaluates `list == obj` in a boolean context
                return builtins_all_(bool(c) for c in self.data)
            raise ValueError("The truth value of an array with more than one element is ambiguous.")
        return decide(r_to_bool(self.data[0]))

    def __index__(self):
        if self.size != 1 or self.kind != "i":
            raise TypeError("only integer scalar arrays can be converted to a scalar index")
        return concretize_int(self.data[0])

    def __int__(self):
        if self.size != 1:
            raise TypeError("only length-1 arrays can be converted to Python scalars")
        return int(box(self.data[0]))

    def __float__(self):
        if self.size != 1:
            raise TypeError("only length-1 arrays can be converted to Python scalars")
        return float(box(self.data[0]))

    def __array__(self, dtype=None, copy=None):  # for real-numpy consumers (conformance run, harness oracles)
        import numpy as _np

        def conc(c):
            if is_sym(c):
                raise Unsupported("converting a symbolic array to a real numpy array")
            if isinstance(c, Fraction):
                return float(c)
            return c

        return _np.array([conc(c) for c in self.data], dtype=dtype).reshape(self.shape)

    # -- indexing
    def _resolve(self, key):
        """-> (positions into self.ix [list], result shape, is_view)"""
        if not isinstance(key, tuple):
            key = (key,)
        key = list(key)
        # normalise entries
        norm = []
        for k in key:
            if isinstance(k, (SV,)):
                norm.append(("sym", k.e))
            elif k is Ellipsis or k is None or isinstance(k, slice):
                norm.append(k)
            elif isinstance(k, bool):
                raise Unsupported("bool scalar index")
            elif isinstance(k, int):
                norm.append(int(k))
            elif isinstance(k, ndarray):
                if k.kind == "b":
                    norm.append(("mask", k))
                elif k.ndim == 0:
                    c = k.data[0]
                    norm.append(("sym", c) if is_sym(c) else int(c))
                else:
                    norm.append(("arr", k))
            elif isinstance(k, (list, tuple)):
                a = asarray(k)
                norm.append(("mask", a) if a.kind == "b" and a.size else ("arr", a))
            else:
                r = raw(k)
                if isinstance(r, int):
                    norm.append(r)
                else:
                    try:
                        import numpy as _np

                        if isinstance(k, _np.ndarray):
                            a = asarray(k)
                            norm.append(("mask", a) if a.kind == "b" else ("arr", a))
                            continue
                    except ImportError:
                        pass
                    raise IndexError(f"unsupported index {k!r}")
        # expand ellipsis
        consumed = 0
        for k in norm:
            if k is Ellipsis or k is None:
                continue
            if isinstance(k, tuple) and k[0] == "mask":
                consumed += k[1].ndim
            else:
                consumed += 1
        if consumed > self.ndim:
            raise IndexError("too many indices for array")
        if any(k is Ellipsis for k in norm):
            if sum(1 for k in norm if k is Ellipsis) > 1:
                raise IndexError("an index can only have a single ellipsis")
            j = next(i for i, k in enumerate(norm) if k is Ellipsis)
            norm[j:j + 1] = [slice(None)] * (self.ndim - consumed)
        else:
            norm += [slice(None)] * (self.ndim - consumed)
        # symbolic slice bounds -> fork
        for j, k in enumerate(norm):
            if isinstance(k, slice):
                st = [concretize_int(x) if x is not None and is_sym(raw(x)) else (None if x is None else int(raw(x)))
                      for x in (k.start, k.stop, k.step)]
                norm[j] = slice(*st)
        adv = [j for j, k in enumerate(norm) if isinstance(k, tuple)]
        strides = _strides(self.shape)
        if not adv:
            ranges, shape, d = [], [], 0
            for k in norm:
                if k is None:
                    shape.append(1)
                    continue
                n = self.shape[d]
                if isinstance(k, slice):
                    r = list(range(*k.indices(n)))
                    ranges.append(r)
                    shape.append(len(r))
                else:
                    kk = k + n if k < 0 else k
                    if not 0 <= kk < n:
                        raise IndexError(f"index {k} is out of bounds for axis {d} with size {n}")
                    ranges.append([kk])
                d += 1
            pos = [sum(i * s for i, s in zip(t, strides)) for t in itertools.product(*ranges)]
            return pos, tuple(shape), True
        # ---- advanced indexing: ints join the advanced group
        items = []  # per source-dim descriptor in order, plus None markers
        d = 0
        for k in norm:
            if k is None:
                items.append(("new",))
            elif isinstance(k, slice):
                items.append(("slice", list(range(*k.indices(self.shape[d]))), d))
                d += 1
            elif isinstance(k, int):
                n = self.shape[d]
                kk = k + n if k < 0 else k
                if not 0 <= kk < n:
                    raise IndexError(f"index {k} is out of bounds for axis {d} with size {n}")
                items.append(("adv", ndarray.new([kk], ()), d))
                d += 1
            elif k[0] == "sym":
                items.append(("adv", ndarray.new([k[1]], ()), d))
                d += 1
            elif k[0] == "arr":
                items.append(("adv", k[1], d))
                d += 1
            else:  # mask -> nonzero index arrays, one per consumed dim
                m = k[1]
                if tuple(self.shape[d:d + m.ndim]) != m.shape:
                    raise IndexError("boolean index did not match indexed array")
                nz = _nonzero_positions(m)
                for ax in range(m.ndim):
                    items.append(("adv", ndarray.new([p[ax] for p in nz], (len(nz),)), d))
                    d += 1
        adv_pos = [j for j, it in enumerate(items) if it[0] == "adv"]
        if adv_pos[-1] - adv_pos[0] + 1 != len(adv_pos):
            raise Unsupported("non-adjacent advanced indices")
        adv_arrs = [items[j][1] for j in adv_pos]
        bshape = broadcast_shapes(*[a.shape for a in adv_arrs])
        adv_b = [broadcast_to(a, bshape).data for a in adv_arrs]
        adv_dims = [items[j][2] for j in adv_pos]
        n_adv = _prod(bshape)
        # build result
        pre = [it for it in items[:adv_pos[0]]]
        post = [it for it in items[adv_pos[-1] + 1:]]

        def rng(it):
            return [None] if it[0] == "new" else it[1]

        shape = [len(rng(it)) for it in pre] + list(bshape) + [len(rng(it)) for it in post]
        pos = []
        for pre_t in itertools.product(*[rng(it) for it in pre]):
            base_pre = sum(v * strides[it[2]] for v, it in zip(pre_t, pre) if it[0] != "new")
            for a in range(n_adv):
                idxs = [adv_b[q][a] for q in range(len(adv_arrs))]
                for post_t in itertools.product(*[rng(it) for it in post]):
                    base = base_pre + sum(v * strides[it[2]] for v, it in zip(post_t, post) if it[0] != "new")
                    if any(is_sym(i) for i in idxs):
                        b2, parts = base, []
                        for i, dd in zip(idxs, adv_dims):
                            if is_sym(i):
                                parts.append((i, strides[dd], self.shape[dd]))
                            else:
                                n = self.shape[dd]
                                ii = int(i) + n if int(i) < 0 else int(i)
                                if not 0 <= ii < n:
                                    raise IndexError(f"index {i} is out of bounds for axis {dd} with size {n}")
                                b2 += ii * strides[dd]
                        pos.append(("sym", b2, parts))
                    else:
                        p = base
                        for i, dd in zip(idxs, adv_dims):
                            n = self.shape[dd]
                            i = int(i)
                            ii = i + n if i < 0 else i
                            if not 0 <= ii < n:
                                raise IndexError(f"index {i} is out of bounds for axis {dd} with size {n}")
                            p += ii * strides[dd]
                        pos.append(p)
        return pos, tuple(shape), False

    def _cell_at(self, p):
        """read one resolved position (concrete int or symbolic descriptor)."""
        if isinstance(p, int):
            return self.buf[self.ix[p]]
        _, base, parts = p

        def rec(b, ps):
            if not ps:
                return self.buf[self.ix[b]]
            idx, stride, n = ps[0]
            # negative symbolic indices wrap like NumPy's
            idx2 = ite(r_cmp("lt", idx, 0), r_add(idx, n), idx)
            return _select([rec(b + k * stride, ps[1:]) for k in range(n)], idx2)

        return rec(base, parts)

    def __getitem__(self, key):
        pos, shape, view = self._resolve(key)
        if view:
            if shape == ():
                return box(self.buf[self.ix[pos[0]]])
            return ndarray(self.buf, [self.ix[p] for p in pos], shape, self._dt)
        cells = [self._cell_at(p) for p in pos]
        if shape == ():
            return box(cells[0])
        return ndarray.new(cells, shape, self._dt)

    def __setitem__(self, key, val):
        if type(key).__module__ == "numpy" and not hasattr(key, "__len__"):
            key = raw(key)      # real numpy scalars (conformance mode)
        # boolean scalar / 0-d boolean mask: threshold[cond] = v  on 0-d arrays
        if isinstance(key, (bool, SV)) or (isinstance(key, ndarray) and key.ndim == 0 and key.kind == "b"):
            c = raw(key.data[0] if isinstance(key, ndarray) else key)
            if isinstance(c, bool) or (is_sym(c) and c.sort() == z3.BoolSort()):
                v = asarray(val)
                if v.size != 1:
                    raise Unsupported("0-d mask assignment with array value")
                nv = v.data[0]
                for i in self.ix:
                    self.buf[i] = self._store_cast(ite(c, nv, self.buf[i]))
                return
        if isinstance(key, ndarray) and key.kind == "b" and key.shape == self.shape and any(is_sym(c) for c in key.data):
            # symbolic full-shape mask: per-element merge (value must be scalar or same shape)
            v = asarray(val)
            if v.size == 1:
                vals = [v.data[0]] * self.size
            elif v.shape == self.shape:
                vals = v.data
            else:
                # NumPy assigns v[k] to the k-th True position; needs a concrete mask
                self._setitem_general(key, val)
                return
            for i, m, nv in zip(self.ix, key.data, vals):
                self.buf[i] = self._store_cast(ite(m, nv, self.buf[i]))
            return
        self._setitem_general(key, val)

    def _setitem_general(self, key, val):
        pos, shape, _ = self._resolve(key)
        v = asarray(val)
        vals = broadcast_to(v, shape).data if v.shape != tuple(shape) else v.data
        for p, nv in zip(pos, vals):
            if isinstance(p, int):
                self.buf[self.ix[p]] = self._store_cast(nv)
            else:
                _, base, parts = p
                if len(parts) != 1:
                    raise Unsupported("multi-axis symbolic scatter")
                idx, stride, n = parts[0]
                for k in range(n):
                    i = self.ix[base + k * stride]
                    self.buf[i] = self._store_cast(ite(r_cmp("eq", idx, k), nv, self.buf[i]))

    def _store_cast(self, v):
        k = self._dt
        if k in ("i", "f", "b"):
            sv = sort_of(v)
            if sv != k and sv in "bif":
                if k == "f" and is_special(v):
                    return v
                return _cast(v, k)
        return v

    # -- elementwise operators
    def _ew(self, other, fn, swap=False, kind=None):
        if not _arraylike(other):
            return NotImplemented
        o = asarray(other)
        a, b = broadcast_arrays(self, o)
        if swap:
            a, b = b, a
        cells = [fn(x, y) for x, y in zip(a.data, b.data)]
        return _ret(cells, a.shape, kind)

    def __add__(s, o): return s._ew(o, r_add)
    def __radd__(s, o): return s._ew(o, r_add, True)
    def __sub__(s, o): return s._ew(o, r_sub)
    def __rsub__(s, o): return s._ew(o, r_sub, True)
    def __mul__(s, o): return s._ew(o, r_mul)
    def __rmul__(s, o): return s._ew(o, r_mul, True)
    def __truediv__(s, o): return s._ew(o, r_div, kind="f")
    def __rtruediv__(s, o): return s._ew(o, r_div, True, kind="f")
    def __floordiv__(s, o): return s._ew(o, r_floordiv)
    def __rfloordiv__(s, o): return s._ew(o, r_floordiv, True)
    def __mod__(s, o): return s._ew(o, r_mod)
    def __pow__(s, o): return s._ew(o, r_pow)
    def __and__(s, o): return s._ew(o, r_and)
    def __rand__(s, o): return s._ew(o, r_and, True)
    def __or__(s, o): return s._ew(o, r_or)
    def __ror__(s, o): return s._ew(o, r_or, True)
    def __xor__(s, o): return s._ew(o, r_xor)
    def __lt__(s, o): return s._ew(o, lambda a, b: r_cmp("lt", a, b), kind="b")
    def __le__(s, o): return s._ew(o, lambda a, b: r_cmp("le", a, b), kind="b")
    def __gt__(s, o): return s._ew(o, lambda a, b: r_cmp("gt", a, b), kind="b")
    def __ge__(s, o): return s._ew(o, lambda a, b: r_cmp("ge", a, b), kind="b")
    def __eq__(s, o): return s._ew(o, lambda a, b: r_cmp("eq", a, b), kind="b")
    def __ne__(s, o): return s._ew(o, lambda a, b: r_cmp("ne", a, b), kind="b")
    def __neg__(s): return _ret([r_neg(c) for c in s.data], s.shape)
    def __pos__(s): return s
    def __abs__(s): return _ret([r_abs(c) for c in s.data], s.shape)
    def __invert__(s): return _ret([r_not(c) for c in s.data], s.shape, "b")

    def _inplace(self, other, fn):
        o = asarray(other)
        b = broadcast_to(o, self.shape)
        for i, y in zip(self.ix, b.data):
            self.buf[i] = self._store_cast(fn(self.buf[i], y))
        return self

    def __iadd__(s, o): return s._inplace(o, r_add)
    def __isub__(s, o): return s._inplace(o, r_sub)
    def __imul__(s, o): return s._inplace(o, r_mul)
    def __itruediv__(s, o): return s._inplace(o, r_div)

    # -- methods
    def astype(self, t, copy=True):
        k = _dt(t)
        return ndarray.new([_cast(c, k) for c in self.data], self.shape, k)

    def item(self, *args):
        if args:
            return self[args if len(args) > 1 else args[0]]
        if self.size != 1:
            raise ValueError("can only convert an array of size 1 to a Python scalar")
        return box(self.data[0])

    def tolist(self):
        if self.ndim == 0:
            return box(self.data[0])
        if self.ndim == 1:
            return [box(c) for c in self.data]
        return [self[i].tolist() for i in range(self.shape[0])]

    def copy(self):
        return ndarray.new(self.data, self.shape, self._dt)

    def flatten(self, order="C"):
        if order != "C":
            return ravel(self, order).copy()
        return ndarray.new(self.data, (self.size,), self._dt)

    def ravel(self, order="C"):
        if order != "C":
            return ravel(self, order)
        return ndarray(self.buf, list(self.ix), (self.size,), self._dt)

    def reshape(self, *shape):
        if len(shape) == 1 and isinstance(shape[0], (tuple, list)):
            shape = tuple(shape[0])
        return reshape(self, shape)

    def squeeze(self, axis=None): return squeeze(self, axis)
    def transpose(self, *axes): return transpose(self, axes or None)
    def sum(self, axis=None, keepdims=False, **k): return np_sum(self, axis=axis, keepdims=keepdims)
    def min(self, axis=None, **k): return np_min(self, axis=axis, **k)
    def max(self, axis=None, **k): return np_max(self, axis=axis, **k)
    def mean(self, axis=None, **k): return mean(self, axis=axis)
    def std(self, axis=None, ddof=0, **k): return std(self, axis=axis, ddof=ddof)
    def any(self, axis=None, **k): return np_any(self, axis=axis)
    def all(self, axis=None, **k): return np_all(self, axis=axis)
    def argmin(self, axis=None): return argmin(self, axis=axis)
    def argmax(self, axis=None): return argmax(self, axis=axis)
    def cumsum(self, axis=None): return cumsum(self, axis=axis)
    def round(self, decimals=0): raise Unsupported("ndarray.round")
    def fill(self, v):
        for i in self.ix:
            self.buf[i] = self._store_cast(raw(v))

    def sort(self, axis=-1):
        if self.ndim != 1:
            raise Unsupported("in-place sort of nd array")
        s = sort(self)
        for i, c in zip(self.ix, s.data):
            self.buf[i] = c

    def nonzero(self): return nonzero(self)
    def take(self, indices, axis=None): return take(self, indices, axis=axis)
    def repeat(self, repeats, axis=None): return repeat(self, repeats, axis=axis)
    def dot(self, o): raise Unsupported("dot")


def _arraylike(x):
    if isinstance(x, (ndarray, SV, I, Q, F, bool, int, float, Fraction, list, tuple, z3.ExprRef, str)) or type(x).__name__ == "FPV":
        return True
    try:
        import numpy as _np

        return isinstance(x, (_np.ndarray, _np.generic))
    except ImportError:
        return False


def _ret(cells, shape, kind=None):
    """array result; 0-d results become scalars like NumPy ufuncs do."""
    if tuple(shape) == ():
        return box(cells[0])
    return ndarray.new(cells, shape, kind)


def _select(cands, idx, force_ite=False):
    """cands[idx] for a symbolic Int idx (assumed in range by construction)."""
    if not is_sym(idx):
        return cands[int(idx)]
    n = len(cands)
    if n == 1:
        return cands[0]
    if GATHER == "fork" and not force_ite:
        return cands[concretize_int(idx, cap=n + 2)]
    out = cands[-1]
    for k in range(n - 2, -1, -1):
        out = ite(r_cmp("eq", idx, k), cands[k], out)
    return out


# ---- creation -------------------------------------------------------------------------------------
def _from_nested(x):
    """nested python sequences / scalars -> (cells, shape)"""
    if isinstance(x, ndarray):
        return x.data, x.shape
    if isinstance(x, (list, tuple, range)):
        subs = [_from_nested(e) for e in x]
        if not subs:
            return [], (0,)
        sh = subs[0][1]
        for c, s in subs:
            if s != sh:
                raise ValueError("inhomogeneous shape")
        return [c for cs, _ in subs for c in cs], (len(subs),) + sh
    try:
        import numpy as _np

        if isinstance(x, _np.ndarray):
            return [raw(v) for v in x.reshape(-1).tolist()], x.shape
    except ImportError:
        pass
    if isinstance(x, (set, frozenset, dict)) or hasattr(x, "__next__"):
        raise Unsupported(f"asarray of {type(x).__name__}")
    return [raw(x)], ()


def asarray(x, dtype=None):
    if isinstance(x, ndarray):
        if dtype is None or _dt(dtype) == x.kind:
            return x
        return x.astype(dtype)
    if hasattr(x, "__symx_array__"):
        return asarray(x.__symx_array__(), dtype)
    if hasattr(x, "__array__") and not isinstance(x, (SV, I, Q, F, list, tuple)) and type(x).__module__.split(".")[0] != "numpy":
        r = x.__array__()      # e.g. ConfusionMatrix.__array__ -> its matrix
        if isinstance(r, ndarray):
            return asarray(r, dtype)
    cells, shape = _from_nested(x)
    k = _dt(dtype)
    if k is not None:
        cells = [_cast(c, k) for c in cells]
    else:
        kinds = {sort_of(c) for c in cells}
        if len(kinds) > 1 and kinds <= {"b", "i", "f"}:
            k = _join_kinds(kinds)
            cells = [_cast(c, k) if not is_special(c) else c for c in cells]
    return ndarray.new(cells, shape, k)


def array(x, dtype=None, copy=True):
    a = asarray(x, dtype)
    return a.copy() if a is x else a


def copy(a):
    return asarray(a).copy()


def _shape(s):
    if isinstance(s, (int, I)):
        return (int(s),)
    if isinstance(s, SV):
        return (concretize_int(s.e),)
    return tuple(int(x) if not isinstance(x, SV) else concretize_int(x.e) for x in s)


def _fillval(k, v):
    return {"b": bool(v), "i": int(v), "f": Fraction(v), "O": None, "U": ""}[k or "f"]


def empty(shape, dtype=float):
    return full(shape, 0, dtype)


def zeros(shape, dtype=float):
    return full(shape, 0, dtype)


def ones(shape, dtype=float):
    return full(shape, 1, dtype)


def full(shape, fill_value, dtype=None):
    shape = _shape(shape)
    k = _dt(dtype)
    v = raw(fill_value)
    if k is None:
        k = sort_of(v)
    v = v if is_special(v) else _cast(v, k)
    return ndarray.new([v] * _prod(shape), shape, k)


def empty_like(a, dtype=None):
    a = asarray(a)
    return full(a.shape, 0, dtype or a.kind)


def zeros_like(a, dtype=None):
    a = asarray(a)
    return full(a.shape, 0, dtype or a.kind)


def ones_like(a, dtype=None):
    a = asarray(a)
    return full(a.shape, 1, dtype or a.kind)


def full_like(a, fill_value, dtype=None):
    a = asarray(a)
    return full(a.shape, fill_value, dtype or a.kind)


def arange(start, stop=None, step=1, dtype=None):
    if stop is None:
        start, stop = 0, start
    start, stop, step = (concretize_int(raw(v)) if is_sym(raw(v)) else raw(v) for v in (start, stop, step))
    if isinstance(start, int) and isinstance(stop, int) and isinstance(step, int):
        return asarray(list(range(start, stop, step)), dtype=dtype or int)
    n = int(_math.ceil((Fraction(stop) - Fraction(start)) / Fraction(step)))
    return asarray([Fraction(start) + i * Fraction(step) for i in range(max(n, 0))])


def linspace(start, stop, num=50, endpoint=True):
    num = concretize_int(raw(num)) if is_sym(raw(num)) else int(raw(num))
    a, b = raw(start), raw(stop)
    if isinstance(a, ndarray) or isinstance(b, ndarray):
        raise Unsupported("linspace with array bounds")
    a, b = r_to_float(a), r_to_float(b)
    if num < 0:
        raise ValueError(f"Number of samples, {num}, must be non-negative.")
    if num == 0:
        return ndarray.new([], (0,), "f")
    div = (num - 1) if endpoint else num
    if div == 0:
        return ndarray.new([a], (1,), "f")
    step = r_div(r_sub(b, a), div)
    cells = [r_add(a, r_mul(i, step)) for i in range(num)]
    if endpoint and num > 1:
        cells[-1] = b
    return ndarray.new(cells, (num,), "f")


# ---- shape manipulation ---------------------------------------------------------------------------
def broadcast_shapes(*shapes):
    nd = max([len(s) for s in shapes], default=0)
    out = []
    for d in range(nd):
        dims = [s[len(s) - nd + d] if len(s) - nd + d >= 0 else 1 for s in shapes]
        m = 1
        for x in dims:
            if x != 1:
                if m != 1 and x != m:
                    raise ValueError(f"operands could not be broadcast together with shapes {shapes}")
                m = x
        if 0 in dims:
            m = 0
        out.append(m)
    return tuple(out)


def broadcast_to(a, shape):
    a = asarray(a)
    shape = tuple(shape)
    if a.shape == shape:
        return a
    nd = len(shape)
    if a.ndim > nd:
        raise ValueError("cannot broadcast to fewer dimensions")
    ash = (1,) * (nd - a.ndim) + a.shape
    for x, y in zip(ash, shape):
        if x != y and x != 1:
            raise ValueError(f"operands could not be broadcast together with shapes {a.shape} {shape}")
    st = _strides(ash)
    st = [0 if n == 1 else s for s, n in zip(st, ash)]
    ix = [a.ix[sum(i * s for i, s in zip(t, st))] for t in itertools.product(*[range(n) for n in shape])]
    return ndarray(a.buf, ix, shape, a._dt)


def broadcast_arrays(*arrs):
    arrs = [asarray(a) for a in arrs]
    sh = broadcast_shapes(*[a.shape for a in arrs])
    return [broadcast_to(a, sh) for a in arrs]


def reshape(a, shape=None, newshape=None):
    a = asarray(a)
    if shape is None:
        shape = newshape
    if isinstance(shape, (int, I)):
        shape = (int(shape),)
    shape = [int(s) for s in shape]
    if -1 in shape:
        j = shape.index(-1)
        rest = _prod([s for i, s in enumerate(shape) if i != j])
        if rest == 0 or a.size % rest:
            # NumPy cannot infer -1 next to a zero-size axis
            raise ValueError(f"cannot reshape array of size {a.size} into shape {tuple(shape)}")
        shape[j] = a.size // rest
    if _prod(shape) != a.size:
        raise ValueError(f"cannot reshape array of size {a.size} into shape {tuple(shape)}")
    return ndarray(a.buf, list(a.ix), tuple(shape), a._dt)


def ravel(a, order="C"):
    a = asarray(a)
    if order == "C":
        return a.ravel()
    if order == "F":
        return transpose(a).ravel()
    # "K"/"A": memory order — elements in the order of their position in the underlying buffer
    if order in ("K", "A"):
        srt = sorted(a.ix)
        if len(set(srt)) != len(srt):
            return a.ravel()      # broadcast views: fall back to C order like NumPy does for non-unique strides
        return ndarray(a.buf, srt, (a.size,), a._dt)
    raise ValueError(f"order must be one of 'C', 'F', 'A', or 'K' (got {order!r})")


def insert(arr, obj, values, axis=None):
    a = asarray(arr)
    if axis is not None and a.ndim != 1:
        raise Unsupported("insert along axis of nd array")
    cells = a.ravel().data
    idx = asarray(obj)
    vals = asarray(values)
    if idx.ndim == 0:
        ids = [idx.data[0]] * max(vals.size, 1)
        vs = vals.ravel().data if vals.size else []
    else:
        ids = idx.data
        vs = broadcast_to(vals, idx.shape).data if vals.shape != idx.shape else vals.data
    n = len(cells)
    ids = [concretize_int(i, cap=n + 2) if is_sym(i) else int(i) for i in ids]
    ids = [i + n if i < 0 else i for i in ids]
    for i in ids:
        if not 0 <= i <= n:
            raise IndexError(f"index {i} is out of bounds for axis 0 with size {n}")
    k = a.kind
    out = []
    for j in range(n + 1):
        for i, v in zip(ids, vs):
            if i == j:
                out.append(v if is_special(v) and k == "f" else _cast(v, k) if k in "bif" else v)   # values are cast to arr's dtype
        if j < n:
            out.append(cells[j])
    return ndarray.new(out, (len(out),), a._dt if a._dt else k)


def append(arr, values, axis=None):
    if axis is not None:
        return concatenate([arr, values], axis=axis)
    return concatenate([asarray(arr).ravel(), asarray(values).ravel()])


def delete(arr, obj, axis=None):
    a = asarray(arr)
    if a.ndim != 1:
        raise Unsupported("delete on nd array")
    ids = asarray(obj)
    ids = [int(i) if not is_sym(i) else concretize_int(i) for i in (ids.data if ids.ndim else [ids.data[0]])]
    n = a.size
    ids = {i + n if i < 0 else i for i in ids}
    return ndarray.new([c for j, c in enumerate(a.data) if j not in ids], (n - len([i for i in ids if 0 <= i < n]),), a._dt)


class _FInfo:
    eps = Fraction(2) ** -52
    max = Fraction(_math.ldexp(1.0, 1023)) * (2 - Fraction(2) ** -52)
    min = -max
    tiny = smallest_normal = Fraction(2) ** -1022
    resolution = Fraction(1, 10 ** 15)


def finfo(t=float):
    if _dt(t) != "f":
        raise ValueError("finfo of a non-float dtype")
    return _FInfo()


class _IInfo:
    max = 2 ** 63 - 1
    min = -2 ** 63


def iinfo(t=int):
    return _IInfo()


def can_cast(from_, to, casting="safe"):
    raise Unsupported("np.can_cast (dtype widths are not modelled)")


def squeeze(a, axis=None):
    a = asarray(a)
    if axis is None:
        sh = tuple(s for s in a.shape if s != 1)
    else:
        axes = _norm_axes(axis, a.ndim)
        for ax in axes:
            if a.shape[ax] != 1:
                raise ValueError("cannot select an axis to squeeze out which has size not equal to one")
        sh = tuple(s for i, s in enumerate(a.shape) if i not in axes)
    return ndarray(a.buf, list(a.ix), sh, a._dt)


def expand_dims(a, axis):
    a = asarray(a)
    axis = axis if axis >= 0 else axis + a.ndim + 1
    sh = list(a.shape)
    sh.insert(axis, 1)
    return ndarray(a.buf, list(a.ix), tuple(sh), a._dt)


def _norm_axes(axis, nd):
    if isinstance(axis, (int, I)):
        axis = (int(axis),)
    out = tuple(int(ax) + nd if ax < 0 else int(ax) for ax in axis)
    for ax in out:
        if not 0 <= ax < nd:
            raise ValueError(f"axis {ax} is out of bounds for array of dimension {nd}")
    return out


def transpose(a, axes=None):
    a = asarray(a)
    if axes is None:
        axes = tuple(reversed(range(a.ndim)))
    axes = _norm_axes(axes, a.ndim)
    st = _strides(a.shape)
    new_shape = tuple(a.shape[ax] for ax in axes)
    ix = [a.ix[sum(i * st[ax] for i, ax in zip(t, axes))] for t in itertools.product(*[range(n) for n in new_shape])]
    return ndarray(a.buf, ix, new_shape, a._dt)


def moveaxis(a, source, destination):
    a = asarray(a)
    src = _norm_axes(source, a.ndim)
    dst = _norm_axes(destination, a.ndim)
    order = [n for n in range(a.ndim) if n not in src]
    for d, s in sorted(zip(dst, src)):
        order.insert(d, s)
    return transpose(a, order)


def swapaxes(a, a1, a2):
    a = asarray(a)
    order = list(range(a.ndim))
    order[a1], order[a2] = order[a2], order[a1]
    return transpose(a, order)


def concatenate(arrs, axis=0):
    arrs = [asarray(x) for x in arrs]
    if not arrs:
        raise ValueError("need at least one array to concatenate")
    for x in arrs:
        if x.ndim == 0:
            raise ValueError("zero-dimensional arrays cannot be concatenated")
    nd = arrs[0].ndim
    if axis is None:
        arrs = [x.flatten() for x in arrs]
        axis, nd = 0, 1
    axis = axis + nd if axis < 0 else axis
    for x in arrs:
        if x.ndim != nd or any(x.shape[d] != arrs[0].shape[d] for d in range(nd) if d != axis):
            raise ValueError("all the input array dimensions except for the concatenation axis must match exactly")
    moved = [transpose(x, [axis] + [d for d in range(nd) if d != axis]) for x in arrs]
    cells = [c for m in moved for c in m.data]
    tot = sum(x.shape[axis] for x in arrs)
    rest = [arrs[0].shape[d] for d in range(nd) if d != axis]
    kinds = [x.kind for x in arrs if x.size] or [arrs[0].kind]
    k = _join_kinds(kinds)
    if k in "if":
        cells = [c if is_special(c) else _cast(c, k) for c in cells]
    out = ndarray.new(cells, (tot, *rest), k)
    inv = list(range(1, axis + 1)) + [0] + list(range(axis + 1, nd))
    return transpose(out, inv).copy() if axis else out


def stack(arrs, axis=0):
    arrs = [asarray(x) for x in arrs]
    if not arrs:
        raise ValueError("need at least one array to stack")
    sh = arrs[0].shape
    for x in arrs:
        if x.shape != sh:
            raise ValueError("all input arrays must have the same shape")
    axis = axis + len(sh) + 1 if axis < 0 else axis
    return concatenate([expand_dims(x, axis) for x in arrs], axis=axis)


def vstack(arrs):
    arrs = [asarray(x) for x in arrs]
    arrs = [x.reshape(1, -1) if x.ndim < 2 else x for x in arrs]
    return concatenate(arrs, axis=0)


def hstack(arrs):
    arrs = [asarray(x) for x in arrs]
    arrs = [x.reshape(-1) if x.ndim == 0 else x for x in arrs]
    return concatenate(arrs, axis=0 if arrs[0].ndim == 1 else 1)


def take(a, indices, axis=None, out=None, mode="raise"):
    a = asarray(a)
    if axis is None:
        r = a.ravel()[indices]
    else:
        axis = axis + a.ndim if axis < 0 else axis
        key = (slice(None),) * axis + (indices,)
        r = a[key]
    if out is not None:
        r_ = asarray(r)
        if tuple(out.shape) != tuple(r_.shape):
            raise ValueError("output array does not match result of ndarray.take")
        for i, c in zip(out.ix, r_.data):
            out.buf[i] = out._store_cast(c)      # written through: `out` may be a view of a longer-lived buffer
        return out
    return r


def diagonal(a, offset=0, axis1=0, axis2=1):
    a = asarray(a)
    if offset:
        raise Unsupported("diagonal offset")
    ax1, ax2 = _norm_axes((axis1, axis2), a.ndim)
    n = min(a.shape[ax1], a.shape[ax2])
    rest = [d for d in range(a.ndim) if d not in (ax1, ax2)]
    st = _strides(a.shape)
    shape = tuple(a.shape[d] for d in rest) + (n,)
    ix = []
    for t in itertools.product(*[range(a.shape[d]) for d in rest]):
        base = sum(i * st[d] for i, d in zip(t, rest))
        for k in range(n):
            ix.append(a.ix[base + k * st[ax1] + k * st[ax2]])
    return ndarray(a.buf, ix, shape, a._dt)


def repeat(a, repeats, axis=None):
    a = asarray(a)
    if axis is not None and a.ndim != 1:
        raise Unsupported("repeat along axis of nd array")
    cells = a.data
    r = asarray(repeats)
    reps = r.data if r.ndim else [r.data[0]] * len(cells)
    if len(reps) != len(cells):
        raise ValueError("operands could not be broadcast together")
    out = []
    for c, k in zip(cells, reps):
        k = concretize_int(k, cap=FORK_CAP) if is_sym(k) else int(k)
        if k < 0:
            raise ValueError("repeats may not contain negative values.")
        out += [c] * k
    return ndarray.new(out, (len(out),), a._dt)


def tile(a, reps):
    raise Unsupported("tile")


# ---- elementwise functions -------------------------------------------------------------------------
def _ufunc1(fn, kind=None):
    def g(a, out=None, where=True, **kw):
        a_ = asarray(a)
        return _ret([fn(c) for c in a_.data], a_.shape, kind)

    return g


def _ufunc2(fn, kind=None):
    def g(a, b, out=None, where=True, **kw):
        x, y = broadcast_arrays(a, b)
        return _ret([fn(p, q) for p, q in zip(x.data, y.data)], x.shape, kind)

    return g


def r_max(a, b):
    if core._has_fp(a, b):      # np.maximum on doubles (NaN handling not needed: kernels assume ordered inputs)
        return ite(r_cmp("ge", a, b), a, b)
    if (is_special(a) and a != a) or (is_special(b) and b != b):
        return nan
    c = r_cmp("ge", a, b)
    return _merge_num(c, a, b)


def r_min(a, b):
    if core._has_fp(a, b):
        return ite(r_cmp("le", a, b), a, b)
    if (is_special(a) and a != a) or (is_special(b) and b != b):
        return nan
    c = r_cmp("le", a, b)
    return _merge_num(c, a, b)


def _merge_num(c, a, b):
    if isinstance(c, bool):
        r = a if c else b
        # NumPy promotes: maximum(int, float) is float
        if sort_of(a) != sort_of(b) and "f" in (sort_of(a), sort_of(b)) and not is_special(r):
            return r_to_float(r)
        return r
    return ite(c, a, b)


maximum = _ufunc2(r_max)
minimum = _ufunc2(r_min)
add = _ufunc2(r_add)
subtract = _ufunc2(r_sub)
multiply = _ufunc2(r_mul)
true_divide = _ufunc2(r_div, "f")
power = _ufunc2(r_pow)
floor = _ufunc1(r_floor, "f")
rint = _ufunc1(r_rint, "f")
ceil = _ufunc1(r_ceil, "f")
sqrt = _ufunc1(r_sqrt, "f")
negative = _ufunc1(r_neg)
logical_not = _ufunc1(lambda c: r_not(r_to_bool(c)), "b")
logical_and = _ufunc2(lambda a, b: r_and(r_to_bool(a), r_to_bool(b)), "b")
logical_or = _ufunc2(lambda a, b: r_or(r_to_bool(a), r_to_bool(b)), "b")
isnan = _ufunc1(lambda c: bool(is_special(c) and c != c), "b")
isfinite = _ufunc1(lambda c: not is_special(c), "b")
isinf = _ufunc1(lambda c: bool(is_special(c) and c == c), "b")
less = _ufunc2(lambda a, b: r_cmp("lt", a, b), "b")
less_equal = _ufunc2(lambda a, b: r_cmp("le", a, b), "b")
greater = _ufunc2(lambda a, b: r_cmp("gt", a, b), "b")
greater_equal = _ufunc2(lambda a, b: r_cmp("ge", a, b), "b")
equal = _ufunc2(lambda a, b: r_cmp("eq", a, b), "b")
not_equal = _ufunc2(lambda a, b: r_cmp("ne", a, b), "b")
sign = _ufunc1(lambda c: ite(r_cmp("gt", c, 0), 1, ite(r_cmp("lt", c, 0), -1, 0)))
square = _ufunc1(lambda c: r_mul(c, c))


def np_abs(a):  # noqa: A001
    a_ = asarray(a)
    return _ret([r_abs(c) for c in a_.data], a_.shape)


absolute = fabs = np_abs


def divide(a, b, out=None, where=True, **kw):
    x, y = broadcast_arrays(a, b)
    w = broadcast_to(asarray(where), x.shape).data
    if out is not None:
        o = broadcast_to(out, x.shape).data
    else:
        o = [Fraction(0)] * x.size
    cells = []
    for p, q, m, d in zip(x.data, y.data, w, o):
        if is_sym(m):
            m = decide(m)  # NaN-ness must be path-concrete
        cells.append(r_div(p, q) if m else d)
    if out is not None and isinstance(out, ndarray) and out.shape == x.shape:
        for i, c in zip(out.ix, cells):
            out.buf[i] = c
        return out if out.shape != () else out
    return _ret(cells, x.shape, "f")


def result_type(*xs):
    ks = []
    for x in xs:
        if isinstance(x, dtype):
            ks.append(x.kind if hasattr(x, "kind") else _dt(x))
        elif isinstance(x, (type, str)):
            ks.append(_dt(x))
        else:
            ks.append(asarray(x).kind)
    return dtype(_join_kinds(ks))


def copyto(dst, src, casting="same_kind", where=True):
    if not isinstance(dst, ndarray):
        raise TypeError("copyto() argument 1 must be numpy.ndarray")
    sa_ = broadcast_to(asarray(src), dst.shape).data
    w = broadcast_to(asarray(where), dst.shape).data
    for i, c, m in zip(dst.ix, sa_, w):
        if is_sym(m):
            m = decide(m)
        if m:
            dst.buf[i] = c if is_special(c) else _cast(c, dst.kind)


def where(cond, x=None, y=None):
    if x is None and y is None:
        return nonzero(cond)
    c, a, b = broadcast_arrays(cond, x, y)
    kinds = _join_kinds([asarray(x).kind, asarray(y).kind])
    cells = []
    for m, p, q in zip(c.data, a.data, b.data):
        m = r_to_bool(m)
        if kinds == "f":
            p = p if is_special(p) else r_to_float(p)
            q = q if is_special(q) else r_to_float(q)
        cells.append(ite(m, p, q))
    return ndarray.new(cells, c.shape, kinds if kinds in "bif" else None) if c.shape != () else ndarray.new(cells, (), None)


def clip(a, a_min=None, a_max=None, **kw):
    a_min = kw.get("min", a_min)
    a_max = kw.get("max", a_max)
    r = a
    if a_min is not None:
        r = maximum(r, a_min)
    if a_max is not None:
        r = minimum(r, a_max)
    return r


def isclose(a, b, rtol=1e-05, atol=1e-08, equal_nan=False):
    rt, at = lift_float(rtol), lift_float(atol)
    return _ufunc2(lambda p, q: r_cmp("le", r_abs(r_sub(p, q)), r_add(at, r_mul(rt, r_abs(q)))), "b")(a, b)


def allclose(a, b, rtol=1e-05, atol=1e-08):
    return np_all(isclose(a, b, rtol, atol))


def isscalar(x):
    if isinstance(x, (SV, I, Q, F, bool, int, float, complex, str, bytes, Fraction)):
        return True
    try:
        import numpy as _np

        return bool(_np.isscalar(x))
    except ImportError:
        return False


def ndim(a):
    return asarray(a).ndim


def shape(a):
    return asarray(a).shape


def size(a):
    return asarray(a).size


def array_equal(a, b):
    if hasattr(a, "__array__") and not isinstance(a, ndarray) and hasattr(a, "matrix"):
        a = a.matrix
    if hasattr(b, "__array__") and not isinstance(b, ndarray) and hasattr(b, "matrix"):
        b = b.matrix
    a, b = asarray(a), asarray(b)
    if a.shape != b.shape:
        return False
    acc = True
    for p, q in zip(a.data, b.data):
        acc = r_and(acc, r_cmp("eq", p, q))
    return box(acc)


# ---- nextafter: uninterpreted one-step functions ----------------------------------------------------
_UP = z3.Function("up", z3.RealSort(), z3.RealSort())
_DOWN = z3.Function("down", z3.RealSort(), z3.RealSort())
FLOAT_ATOMS = []   # z3 Real consts that denote *input floats* (set by harness via declare_float_atoms)


def declare_float_atoms(atoms):
    FLOAT_ATOMS[:] = list(atoms)


def _step(x, up):
    """one float step from raw x."""
    if type(x).__name__ == "FPV":
        from . import fp as _fp

        return _fp.nextafter(x, up)
    if not is_sym(x):
        if is_special(x):
            return x
        f = float(x)
        if Fraction(f) != Fraction(x):
            raise Unsupported("nextafter of a non-representable concrete real")
        return lift_float(_math.nextafter(f, inf if up else -inf))
    ex = core.cur()
    x = to_z3(x, like=z3.RealSort())
    key = ("nextafter", up, x.get_id())
    if key in ex.memo:
        return ex.memo[key]
    t = ex.fresh_real('up' if up else 'down')   # Ackermannised one-step function
    ex.assume(t > x if up else t < x, axiom=True)
    # gap axioms against every input float and every other stepped term known on this path
    others = list(FLOAT_ATOMS) + [v for (k, v) in ex.memo.items() if k and k[0] == "nextafter_arg"]
    for a in others:
        if a.get_id() == x.get_id():
            continue
        ex.assume(z3.Or(a <= x, a >= t) if up else z3.Or(a >= x, a <= t), axiom=True)
    # inverse pair if the opposite step of x's neighbour exists
    ex.memo[("nextafter_arg", x.get_id())] = x
    ex.memo[key] = t
    # monotonicity w.r.t. previously stepped terms (same direction)
    for (k, v) in list(ex.memo.items()):
        if k and k[0] == "nextafter" and k[1] == up and k[2] != x.get_id():
            ox = ex.memo[("nextafter_arg", k[2])]
            ex.assume(z3.And(z3.Implies(ox < x, v < t), z3.Implies(ox > x, v > t), z3.Implies(ox == x, v == t)), axiom=True)
        if k and k[0] == "nextafter" and k[1] != up and k[2] != x.get_id():
            ox = ex.memo[("nextafter_arg", k[2])]
            # floats are symmetric: nextafter(-x, -inf) = -nextafter(x, +inf)
            ex.assume(z3.Implies(ox == -x, v == -t), axiom=True)
            # v = step of ox in the opposite direction; no float strictly between
            if up:   # v = down(ox):  ox > x  =>  down(ox) >= x ; and up(x) <= ox
                ex.assume(z3.Implies(ox > x, z3.And(v >= x, t <= ox)), axiom=True)
                ex.assume(z3.Implies(ox <= x, v < t), axiom=True)
            else:    # v = up(ox): ox < x => up(ox) <= x ; down(x) >= ox
                ex.assume(z3.Implies(ox < x, z3.And(v <= x, t >= ox)), axiom=True)
                ex.assume(z3.Implies(ox >= x, v > t), axiom=True)
    return t


def nextafter(x, d):
    x_, d_ = broadcast_arrays(x, d)
    cells = []
    for p, q in zip(x_.data, d_.data):
        if is_sym(q):
            raise Unsupported("nextafter towards a symbolic value")
        if q != q:
            cells.append(nan)
            continue
        if type(p).__name__ == "FPV":
            cells.append(_step(p, q > 0))
            continue
        if not is_sym(p) and not is_special(p) and not is_special(q):
            if Fraction(q) == Fraction(p):
                cells.append(p)
                continue
            cells.append(_step(p, Fraction(q) > Fraction(p)))
            continue
        if is_special(q):
            cells.append(_step(r_to_float(p) if not is_special(p) else p, q > 0))
        else:
            # finite target vs symbolic x: direction depends on comparison -> fork
            if decide(r_cmp("eq", p, q)):
                cells.append(p)
            else:
                cells.append(_step(r_to_float(p), decide(r_cmp("gt", q, p))))
    return _ret(cells, x_.shape, "f")


# ---- reductions ---------------------------------------------------------------------------------------
import builtins as _b

builtins_all_ = _b.all



def _reduce(a, axis, keepdims, fn, empty_val=None, out_kind=None):
    """generic reduction: fn(list_of_cells) -> cell"""
    a = asarray(a)
    if axis is None:
        axes = tuple(range(a.ndim))
    else:
        axes = _norm_axes(axis, a.ndim)
    keep = [d for d in range(a.ndim) if d not in axes]
    st = _strides(a.shape)
    out_shape = tuple(a.shape[d] for d in keep)
    cells = []
    for t in itertools.product(*[range(a.shape[d]) for d in keep]):
        base = sum(i * st[d] for i, d in zip(t, keep))
        grp = [a.buf[a.ix[base + sum(i * st[d] for i, d in zip(u, axes))]]
               for u in itertools.product(*[range(a.shape[d]) for d in axes])]
        if not grp and empty_val is None:
            raise ValueError("zero-size array to reduction operation which has no identity")
        cells.append(fn(grp) if grp else empty_val)
    if keepdims:
        out_shape = tuple(1 if d in axes else a.shape[d] for d in range(a.ndim))
    return _ret(cells, out_shape, out_kind)


def _sum_cells(cells):
    acc = 0
    first = True
    for c in cells:
        acc = c if first and not isinstance(c, bool) else r_add(acc, c)
        first = False
    return acc


def np_sum(a, axis=None, keepdims=False, dtype=None, initial=None, **kw):  # noqa: A001
    a = asarray(a)
    zero = Fraction(0) if a.kind == "f" else 0
    r = _reduce(a, axis, keepdims, lambda g: r_add(zero, _sum_cells(g)), zero)
    return r


def nansum(a, axis=None, keepdims=False):
    a = asarray(a)
    zero = Fraction(0) if a.kind == "f" else 0
    return _reduce(a, axis, keepdims, lambda g: r_add(zero, _sum_cells([c for c in g if not (is_special(c) and c != c)])), zero)


def prod(a, axis=None):
    def f(g):
        acc = 1
        for c in g:
            acc = r_mul(acc, c)
        return acc

    return _reduce(a, axis, False, f, 1)


def _fold_cells(fn):
    def f(g):
        acc = g[0]
        for c in g[1:]:
            acc = fn(acc, c)
        return acc

    return f


def np_min(a, axis=None, keepdims=False, initial=None, **kw):  # noqa: A001
    if initial is not None:
        ini = raw(initial)
        return _reduce(a, axis, keepdims, lambda g: _fold_cells(r_min)([ini] + g), ini)
    return _reduce(a, axis, keepdims, _fold_cells(r_min))


def np_max(a, axis=None, keepdims=False, initial=None, **kw):  # noqa: A001
    if initial is not None:
        ini = raw(initial)
        return _reduce(a, axis, keepdims, lambda g: _fold_cells(r_max)([ini] + g), ini)
    return _reduce(a, axis, keepdims, _fold_cells(r_max))


amin, amax = np_min, np_max


def nanmin(a, axis=None):
    return _reduce(a, axis, False, lambda g: _fold_cells(r_min)([c for c in g if not (is_special(c) and c != c)] or [nan]))


def nanmax(a, axis=None):
    return _reduce(a, axis, False, lambda g: _fold_cells(r_max)([c for c in g if not (is_special(c) and c != c)] or [nan]))


def np_any(a, axis=None, keepdims=False):  # noqa: A001
    return _reduce(a, axis, keepdims, lambda g: _fold_cells(r_or)([r_to_bool(c) for c in g]), False, "b")


def np_all(a, axis=None, keepdims=False):  # noqa: A001,F811
    return _reduce(a, axis, keepdims, lambda g: _fold_cells(r_and)([r_to_bool(c) for c in g]), True, "b")


def count_nonzero(a, axis=None):
    return _reduce(a, axis, False, lambda g: _sum_cells([ite(r_to_bool(c), 1, 0) for c in g]), 0)


def mean(a, axis=None, keepdims=False):
    a = asarray(a)

    def f(g):
        return r_div(_sum_cells(g), len(g))

    return _reduce(a, axis, keepdims, f, nan)


def var(a, axis=None, ddof=0):
    def f(g):
        m = r_div(_sum_cells(g), len(g))
        return r_div(_sum_cells([r_mul(r_sub(c, m), r_sub(c, m)) for c in g]), len(g) - ddof)

    return _reduce(a, axis, False, f, nan)


def std(a, axis=None, ddof=0):
    v = var(a, axis, ddof)
    return sqrt(v)


def _argext(a, axis, better):
    a = asarray(a)
    if axis is None:
        a = a.ravel()
        axis = 0

    def f(g):
        # index of the first extremal element (NumPy returns the first occurrence)
        best_v, best_i = g[0], 0
        for k in range(1, len(g)):
            c = better(g[k], best_v)
            best_i = ite(c, k, best_i)
            best_v = ite(c, g[k], best_v)
        return best_i

    return _reduce(a, axis, False, f)


def argmin(a, axis=None):
    return _argext(a, axis, lambda x, y: r_cmp("lt", x, y))


def argmax(a, axis=None):
    return _argext(a, axis, lambda x, y: r_cmp("gt", x, y))


def cumsum(a, axis=None):
    a = asarray(a)
    if a.ndim != 1 and axis is not None:
        raise Unsupported("cumsum along axis")
    cells, acc = [], 0
    for c in a.data:
        acc = r_add(acc, c)
        cells.append(acc)
    return ndarray.new(cells, (len(cells),))


def _drop_nan(g):
    return [c for c in g if not (is_special(c) and c != c)]


def nanmean(a, axis=None, keepdims=False):
    def f(g):
        g = [r_to_float(ite(c, 1, 0)) if sort_of(c) == "b" else c for c in _drop_nan(g)]
        return r_div(_sum_cells(g), len(g)) if g else nan

    return _reduce(a, axis, keepdims, f, nan)


def nanvar(a, axis=None, ddof=0):
    def f(g):
        g = _drop_nan(g)
        if not g:
            return nan
        m = r_div(_sum_cells(g), len(g))
        return r_div(_sum_cells([r_mul(r_sub(c, m), r_sub(c, m)) for c in g]), len(g) - ddof)

    return _reduce(a, axis, False, f, nan)


def nanstd(a, axis=None, ddof=0):
    return sqrt(nanvar(a, axis, ddof))


def nanmedian(a, axis=None):
    return _quantile(a, Fraction(1, 2), axis, True)


def diff(a, n=1, axis=-1, prepend=None, append=None):
    a = asarray(a)
    if a.ndim != 1 or n != 1:
        raise Unsupported("diff of nd array")
    if prepend is not None:
        a = concatenate([asarray(prepend).reshape(-1), a])
    if append is not None:
        a = concatenate([a, asarray(append).reshape(-1)])
    d = a.data
    return ndarray.new([r_sub(d[i + 1], d[i]) for i in range(len(d) - 1)], (max(len(d) - 1, 0),))


# ---- sorting and searching --------------------------------------------------------------------------------
def _symb(c):
    return is_sym(c) or type(c).__name__ == "FPV"


def _entailed_sorted(cells):
    """True if cells are concretely sorted or the path condition entails a[i] <= a[i+1] for all i."""
    if len(cells) < 2:
        return True
    sym = [_symb(c) for c in cells]
    if not any(sym):
        return all(not r_cmp("gt", cells[i], cells[i + 1]) for i in range(len(cells) - 1))
    conds = []
    for i in range(len(cells) - 1):
        c = r_cmp("gt", cells[i], cells[i + 1])
        if c is True:
            return False
        if c is False:
            continue
        conds.append(c)
    if not conds:
        return True
    ex = core.cur()
    key = ("sorted",) + tuple(c.get_id() if is_sym(c) else (c.e.get_id() if type(c).__name__ == "FPV" else ("c", str(c))) for c in cells)
    if key in ex.memo:
        return ex.memo[key]
    r, _ = ex._side(z3.Or(conds))
    ex.memo[key] = r == "unsat"
    return ex.memo[key]


def _split_special(cells):
    ninf = [c for c in cells if is_special(c) and c == -inf]
    pinf = [c for c in cells if is_special(c) and c == inf]
    nans = [c for c in cells if is_special(c) and c != c]
    fin = [c for c in cells if not is_special(c)]
    return ninf, fin, pinf, nans


def _sort_perm(cells):
    """-> permutation (list of raw indices, possibly symbolic cells) sorting `cells`; returns (sorted_cells, perm or None)"""
    n = len(cells)
    idx = list(range(n))
    if not any(_symb(c) for c in cells):
        def keyf(i):
            c = cells[i]
            if is_special(c):
                return (2, 0) if c != c else ((1, inf) if c > 0 else (1, -inf))
            if isinstance(c, str):
                return (1, c)
            return (1, Fraction(int(c)) if isinstance(c, bool) else Fraction(c))
        order = sorted(idx, key=keyf)
        return [cells[i] for i in order], order
    ninf, fin, pinf, nans = _split_special(cells)
    if ninf or pinf or nans:
        pos = {id(c): i for i, c in enumerate(cells)}
        fi = [i for i in idx if not is_special(cells[i])]
        sc, sp = _sort_perm([cells[i] for i in fi])
        perm = [i for i in idx if is_special(cells[i]) and cells[i] == -inf] + [ite_idx(fi, p) for p in sp] + \
               [i for i in idx if is_special(cells[i]) and cells[i] == inf] + [i for i in idx if is_special(cells[i]) and cells[i] != cells[i]]
        return ninf + sc + pinf + nans, perm
    if _entailed_sorted(cells):
        return list(cells), idx
    if SORT == "fork":
        out, perm = [], []
        for i, v in enumerate(cells):
            j = len(out)
            while j > 0 and decide(r_cmp("lt", v, out[j - 1])):
                j -= 1
            out.insert(j, v)
            perm.insert(j, i)
        return out, perm
    # ITE bubble network carrying (value, original index); stable
    xs = list(cells)
    ps = list(idx)
    for i in range(n):
        for j in range(n - 1 - i):
            c = r_cmp("le", xs[j], xs[j + 1])
            xs[j], xs[j + 1] = ite(c, xs[j], xs[j + 1]), ite(c, xs[j + 1], xs[j])
            ps[j], ps[j + 1] = ite(c, ps[j], ps[j + 1]), ite(c, ps[j + 1], ps[j])
    return xs, ps


def ite_idx(fi, p):
    if not is_sym(p):
        return fi[p]
    return _select(fi, p, force_ite=True)


def sort(a, axis=-1, kind=None):
    a = asarray(a)
    if a.ndim == 0:
        raise ValueError("Cannot sort a 0-d array")
    if a.ndim != 1:
        if axis in (-1, a.ndim - 1):
            rows = a.reshape(-1, a.shape[-1])
            out = [sort(rows[i]).data for i in range(rows.shape[0])]
            return ndarray.new([c for r in out for c in r], a.shape, a._dt)
        raise Unsupported("sort along a non-last axis")
    cells, _ = _sort_perm(a.data)
    return ndarray.new(cells, a.shape, a._dt)


def argsort(a, axis=-1, kind=None):
    a = asarray(a)
    if a.ndim != 1:
        raise Unsupported("argsort of nd array")
    _, perm = _sort_perm(a.data)
    return ndarray.new(perm, a.shape, "i")


def sorted_builtin(xs, key=None, reverse=False):
    return _b.sorted(xs, key=key, reverse=reverse)


def _bisect(cells, key, side):
    n = len(cells)
    if n == 0:
        return 0
    lo, hi = 0, n
    steps = n.bit_length() + 1
    for _ in range(steps):
        active = r_cmp("lt", lo, hi)
        if active is False:
            break
        mid = r_add(lo, r_floordiv(r_sub(hi, lo), 2)) if is_sym(lo) or is_sym(hi) else lo + (hi - lo) // 2
        if is_sym(mid):
            # mid in [0, n-1] whenever active
            x = _select(cells, ite(r_cmp("lt", mid, n), mid, n - 1), force_ite=True)
        else:
            x = cells[min(mid, n - 1)]
        c = r_cmp("lt", x, key) if side == "left" else r_cmp("le", x, key)
        lo2 = ite(c, r_add(mid, 1), lo)
        hi2 = ite(c, hi, mid)
        lo = ite(active, lo2, lo)
        hi = ite(active, hi2, hi)
    return lo


def searchsorted(a, v, side="left", sorter=None):
    a = asarray(a)
    if a.ndim != 1:
        raise ValueError("object too deep for desired array")
    if side not in ("left", "right"):
        raise ValueError(f"side must be 'left' or 'right', got {side!r}")
    cells = a.data
    v_ = asarray(v)
    use_count = SEARCH == "auto" and _entailed_sorted(cells)

    def one(key):
        if is_special(key) and key != key:
            return len(cells)
        if use_count:
            op = "lt" if side == "left" else "le"
            cnt = _sum_cells([ite(r_cmp(op, c, key), 1, 0) for c in cells]) if cells else 0
            return fold(cnt) if FOLD and is_sym(cnt) else cnt
        return _bisect(cells, key, side)

    return _ret([one(k) for k in v_.data], v_.shape, "i")


def unique(a, return_counts=False, return_inverse=False, return_index=False):
    if return_counts or return_inverse or return_index:
        raise Unsupported("unique with extra outputs")
    a = asarray(a)
    cells = a.data
    out = []
    for c in cells:  # equality forks via decide; builds distinct representatives
        if not any(decide(r_cmp("eq", c, o)) for o in out):
            out.append(c)
    if any(_symb(c) for c in out):
        old = SORT
        try:
            set_policy(sort="fork")
            cells2, _ = _sort_perm(out)
        finally:
            set_policy(sort=old)
        return ndarray.new(cells2, (len(cells2),), a._dt)
    cells2, _ = _sort_perm(out)
    return ndarray.new(cells2, (len(cells2),), a._dt)


def _nonzero_positions(m):
    """multi-index tuples of True cells of m (forking on symbolic cells)."""
    m = asarray(m)
    out = []
    for t, c in zip(itertools.product(*[range(n) for n in m.shape]), m.data):
        if decide(r_to_bool(c)):
            out.append(t)
    return out


def nonzero(a):
    a = asarray(a)
    nz = _nonzero_positions(a)
    return tuple(ndarray.new([p[ax] for p in nz], (len(nz),), "i") for ax in range(a.ndim))


def flatnonzero(a):
    return nonzero(asarray(a).ravel())[0]


def argwhere(a):
    raise Unsupported("argwhere")


# ---- quantiles -----------------------------------------------------------------------------------------------
def _quantile_1d(cells, q):
    """NumPy's default 'linear' method on a list of finite cells; q raw scalar."""
    m = len(cells)
    if m == 0:
        return nan
    if is_special(q):
        return nan
    sc, _ = _sort_perm(cells)
    if m == 1:
        return sc[0]
    vi = r_mul(r_to_float(q), m - 1)          # virtual index
    fl = r_floor(vi)
    lo = r_trunc_int(fl)
    if is_sym(lo):
        lo = ite(r_cmp("lt", lo, 0), 0, ite(r_cmp("gt", lo, m - 1), m - 1, lo))
        hi = ite(r_cmp("lt", lo, m - 1), r_add(lo, 1), m - 1)
    else:
        lo = min(max(lo, 0), m - 1)
        hi = min(lo + 1, m - 1)
    g = r_sub(vi, fl)
    x0 = _select(sc, lo)
    x1 = _select(sc, hi)
    # numpy lerp: a + (b-a)*t
    return r_add(x0, r_mul(r_sub(x1, x0), g))


def _quantile(a, q, axis, ignore_nan):
    a = asarray(a)
    q_ = asarray(q)
    if axis is None:
        a = a.ravel()
        axis = 0
    axis = _norm_axes(axis, a.ndim)[0]
    moved = transpose(a, [axis] + [d for d in range(a.ndim) if d != axis])
    rest_shape = moved.shape[1:]
    n = moved.shape[0]
    cols = _prod(rest_shape)
    md = moved.data
    out = []
    for qc in q_.data:
        for j in range(cols):
            col = [md[i * cols + j] for i in range(n)]
            has_nan = any(is_special(c) and c != c for c in col)
            if has_nan:
                if not ignore_nan:
                    out.append(nan)
                    continue
                col = [c for c in col if not (is_special(c) and c != c)]
            out.append(_quantile_1d(col, qc))
    return _ret(out, q_.shape + tuple(rest_shape), "f")


def quantile(a, q, axis=None, **kw):
    return _quantile(a, q, axis, False)


def nanquantile(a, q, axis=None, **kw):
    return _quantile(a, q, axis, True)


def median(a, axis=None):
    return _quantile(a, Fraction(1, 2), axis, False)


def percentile(a, q, axis=None):
    return _quantile(a, asarray(q) / 100, axis, False)


# ---- interpolation / integration ----------------------------------------------------------------------------------
def interp(x, xp, fp):
    """np.interp for increasing xp: piecewise linear, clamped.  Segment choice by comparisons (If-merged)."""
    x_ = asarray(x)
    xp_, fp_ = asarray(xp).data, asarray(fp).data
    n = len(xp_)
    if n == 0:
        raise ValueError("array of sample points is empty")

    def one(v):
        # NumPy: j = largest index with xp[j] <= v (binary search); result fp[j] + slope*(v-xp[j]); ends clamped
        res = fp_[-1]
        for j in range(n - 2, -1, -1):
            dx = r_sub(xp_[j + 1], xp_[j])
            seg = r_add(fp_[j], r_mul(r_div(r_sub(fp_[j + 1], fp_[j]), dx), r_sub(v, xp_[j]))) if not (not is_sym(dx) and dx == 0) else fp_[j]
            if is_sym(dx):
                seg = ite(r_cmp("eq", dx, 0), fp_[j], seg)
            res = ite(r_cmp("lt", v, xp_[j + 1]), seg, res)
        res = ite(r_cmp("lt", v, xp_[0]), fp_[0], res)
        res = ite(r_cmp("ge", v, xp_[-1]), fp_[-1], res)
        return res

    return _ret([one(v) for v in x_.data], x_.shape, "f")


def trapezoid(y, x=None, dx=1.0, axis=-1):
    y_ = asarray(y).data
    if x is None:
        raise Unsupported("trapezoid without x")
    x_ = asarray(x).data
    tot = Fraction(0)
    for i in range(len(x_) - 1):
        tot = r_add(tot, r_div(r_mul(r_sub(x_[i + 1], x_[i]), r_add(y_[i], y_[i + 1])), 2))
    return box(tot)


# numpy 2.x has trapezoid; keep trapz absent so the repository's try/except picks trapezoid.


class errstate:
    def __init__(self, **kw):
        pass

    def __enter__(self):
        return self

    def __exit__(self, *a):
        return False


def seterr(**kw):
    return {}


