"""F-bits regime: bit-precise IEEE-754 binary64 scalars (z3 FloatingPoint, round-to-nearest-even) for tiny kernels.

An `FPV` wraps a z3 FP term.  It implements the Python operators and is understood by the raw arithmetic of
symx.core (r_add, r_sub, r_mul, r_div, r_max/r_min via r_cmp + ite, comparisons), so the repository's own kernel
code — a handful of operations — runs on symbolic doubles.  Concrete operands must be Python floats computed by
real float arithmetic (the harness supplies them); exact rationals are rejected unless they are representable."""
from fractions import Fraction

import z3

from . import core

F64 = z3.Float64()
RNE = z3.RNE()


class FPV:
    __slots__ = ("e",)
    shape = ()
    ndim = 0
    size = 1

    def __init__(self, e):
        self.e = e

    # numpy-scalar protocol bits the repository touches
    def item(self):
        return self

    def astype(self, t):
        return self

    def __repr__(self):
        return f"FPV({self.e})"

    def _bin(self, o, f, swap=False):
        o = lift(o)
        if o is NotImplemented:
            return NotImplemented
        return FPV(f(o.e, self.e) if swap else f(self.e, o.e))

    def __add__(s, o): return s._bin(o, lambda a, b: z3.fpAdd(RNE, a, b))
    def __radd__(s, o): return s._bin(o, lambda a, b: z3.fpAdd(RNE, a, b), True)
    def __sub__(s, o): return s._bin(o, lambda a, b: z3.fpSub(RNE, a, b))
    def __rsub__(s, o): return s._bin(o, lambda a, b: z3.fpSub(RNE, a, b), True)
    def __mul__(s, o): return s._bin(o, lambda a, b: z3.fpMul(RNE, a, b))
    def __rmul__(s, o): return s._bin(o, lambda a, b: z3.fpMul(RNE, a, b), True)
    def __truediv__(s, o): return s._bin(o, lambda a, b: z3.fpDiv(RNE, a, b))
    def __rtruediv__(s, o): return s._bin(o, lambda a, b: z3.fpDiv(RNE, a, b), True)
    def __neg__(s): return FPV(z3.fpNeg(s.e))
    def __abs__(s): return FPV(z3.fpAbs(s.e))
    def __pos__(s): return s

    def round_to_integral(s, how):
        return FPV(z3.fpRoundToIntegral({"floor": z3.RTN(), "ceil": z3.RTP(), "even": RNE, "trunc": z3.RTZ()}[how], s.e))

    def sqrt(s):
        return FPV(z3.fpSqrt(RNE, s.e))

    def _cmp(self, o, f):
        o = lift(o)
        if o is NotImplemented:
            return NotImplemented
        return core.box(core.wrap(f(self.e, o.e)))

    def __lt__(s, o): return s._cmp(o, z3.fpLT)
    def __le__(s, o): return s._cmp(o, z3.fpLEQ)
    def __gt__(s, o): return s._cmp(o, z3.fpGT)
    def __ge__(s, o): return s._cmp(o, z3.fpGEQ)
    def __eq__(s, o): return s._cmp(o, z3.fpEQ)
    def __ne__(s, o): return s._cmp(o, lambda a, b: z3.Not(z3.fpEQ(a, b)))
    __hash__ = None


def const(x):
    """a Python float (as computed by real float arithmetic) as an FP constant"""
    return FPV(z3.FPVal(float(x), F64))


def lift(o):
    if isinstance(o, FPV):
        return o
    if isinstance(o, bool):
        return const(1.0 if o else 0.0)
    if isinstance(o, (int, float)):
        return const(float(o))
    if isinstance(o, Fraction):
        f = float(o)
        if Fraction(f) != o:
            raise core.Unsupported("inexact rational in an F-bits kernel (supply the float the real code would compute)")
        return const(f)
    if isinstance(o, core.SV):
        e = o.e
        if e.sort() == z3.BoolSort():
            return FPV(z3.If(e, z3.FPVal(1.0, F64), z3.FPVal(0.0, F64)))
        raise core.Unsupported("mixing real-sorted terms into an F-bits kernel")
    if isinstance(o, z3.ExprRef) and o.sort() == z3.BoolSort():
        return FPV(z3.If(o, z3.FPVal(1.0, F64), z3.FPVal(0.0, F64)))
    return NotImplemented


def fresh(name):
    return FPV(z3.FP(name, F64))


def is_finite(v):
    return z3.And(z3.Not(z3.fpIsNaN(v.e)), z3.Not(z3.fpIsInf(v.e)))


def value(m, v):
    """model value of an FPV as a Python float (via the IEEE bit pattern, exact for sub-normals, zeros, infinities)"""
    import struct

    x = m.eval(v.e, model_completion=True)
    if z3.is_fprm(x):
        return None
    if z3.fpIsNaN(x) is not None and str(x) == "NaN":
        return float("nan")
    bits = m.eval(z3.fpToIEEEBV(x), model_completion=True)
    try:
        return struct.unpack(">d", struct.pack(">Q", bits.as_long()))[0]
    except Exception:  # noqa: BLE001
        s = str(x)
        return float(s.replace("+oo", "inf").replace("-oo", "-inf").replace("oo", "inf")) if s else None


def nextafter(v, up):
    """bit-precise np.nextafter(v, +-inf) for a finite double: step the IEEE bit pattern (sign-magnitude)."""
    bv = z3.fpToIEEEBV(v.e)
    one = z3.BitVecVal(1, 64)
    neg = z3.fpIsNegative(v.e)
    zero = z3.fpIsZero(v.e)
    min_pos = z3.BitVecVal(1, 64)                      # smallest subnormal
    min_neg = z3.BitVecVal((1 << 63) | 1, 64)
    if up:
        out = z3.If(zero, min_pos, z3.If(neg, bv - one, bv + one))
    else:
        out = z3.If(zero, min_neg, z3.If(neg, bv + one, bv - one))
    return FPV(z3.fpBVToFP(out, F64))
