"""./check driver: run a property's work items in parallel, aggregate evidence, report."""
from __future__ import annotations

import argparse
import hashlib
import importlib
import json
import multiprocessing as mp
import os
import pathlib
import sys
import time
import traceback

HERE = pathlib.Path(__file__).resolve().parent.parent
sys.path.insert(0, str(HERE))

EXIT_OK, EXIT_VIOLATION, EXIT_INCONCLUSIVE = 0, 1, 2


def _worker(args):
    prop, module_name, params, opts = args
    os.environ.setdefault("PYTHONHASHSEED", "0")
    try:
        from symx import harness

        return harness.run_item(prop, module_name, params, opts)
    except BaseException as e:  # noqa: BLE001
        return {"params": params, "paths": 0, "decisions": 0, "queries": 0, "obligations": 0, "discharged": 0, "trivial": 0,
                "nontrivial_keys": 0, "solver_s": 0.0, "violations": [], "samples": [], "covers": [], "rng_calls": 0, "cuts": [],
                "exceptions": 0, "wall_s": 0.0, "functions": [],
                "inconclusive": [{"reason": f"harness-crash:{type(e).__name__}:{e}", "tb": traceback.format_exc(limit=10)}]}


def load_known():
    p = HERE / "known_findings.json"
    if not p.exists():
        return []
    return json.loads(p.read_text()).get("findings", [])


def main(argv=None):
    ap = argparse.ArgumentParser()
    ap.add_argument("prop")
    ap.add_argument("--tier", default=os.environ.get("VERIF_TIER", "quick"), choices=["quick", "thorough"])
    ap.add_argument("--replay")
    ap.add_argument("--jobs", type=int, default=int(os.environ.get("VERIF_JOBS", "16")))
    ap.add_argument("--only", help="substring filter on work-item params (debugging)")
    ap.add_argument("--no-evidence", action="store_true")
    a = ap.parse_args(argv)
    prop = a.prop
    seed = int(os.environ.get("VERIF_SEED", "0"))
    module_name = f"checks.{prop}"
    try:
        mod = importlib.import_module(module_name)
    except ModuleNotFoundError:
        print(f"INCONCLUSIVE property={prop} reason=no-such-check")
        return EXIT_INCONCLUSIVE

    if a.replay:
        from symx import harness

        rec = json.loads(pathlib.Path(a.replay).read_text())
        runfn = (lambda h, **p: mod.regressions(h)) if rec["params"].get("kind") == "__regressions__" else mod.run
        rp = harness.replay(runfn, rec["params"] if runfn is mod.run else {}, rec["witness"], rec.get("tol", 1e-9), patch_rng=runfn is mod.run)
        print(json.dumps({"params": rec["params"], "witness": rec["witness"], "replay": rp}, indent=1, default=str))
        bad = rp["status"] == "exception" or rp["failed"]
        if bad:
            print(f"VIOLATION property={prop} replay={a.replay}")
            return EXIT_VIOLATION
        print("replay: property holds on this input")
        return EXIT_OK

    t0 = time.time()
    items = mod.items(a.tier)
    if a.only:
        items = [p for p in items if a.only in json.dumps(p, sort_keys=True)]
    opts = dict(getattr(mod, "OPTS", {}).get(a.tier, {}))
    jobs = [(prop, module_name, p, opts) for p in items]
    results = []
    if a.jobs <= 1 or len(jobs) <= 1:
        results = [_worker(j) for j in jobs]
    else:
        ctx = mp.get_context("fork")
        with ctx.Pool(min(a.jobs, len(jobs)), maxtasksperchild=8) as pool:
            for r in pool.imap_unordered(_worker, jobs, chunksize=1):
                results.append(r)
                if os.environ.get("VERIF_VERBOSE"):
                    print(f"  item {json.dumps(r['params'], default=str)} paths={r['paths']} obl={r['obligations']} dis={r['discharged']} "
                          f"viol={len(r['violations'])} inc={[i.get('reason') for i in r['inconclusive']][:3]} wall={r['wall_s']}s", flush=True)
    results.sort(key=lambda r: json.dumps(r["params"], sort_keys=True, default=str))

    # ---- aggregate
    agg = {k: sum(r.get(k, 0) for r in results) for k in
           ("paths", "decisions", "queries", "obligations", "discharged", "trivial", "nontrivial_keys", "rng_calls", "exceptions", "checks")}
    solver_s = round(sum(r.get("solver_s", 0.0) for r in results), 2)
    violations = [v for r in results for v in r["violations"]]
    inconclusive = [dict(i, params=r["params"]) for r in results for i in r["inconclusive"]]
    covers = sorted({c for r in results for c in r.get("covers", [])})
    cuts = sorted({c for r in results for c in r.get("cuts", [])})
    functions = sorted({f for r in results for f in r.get("functions", [])})

    # ---- concrete regression witnesses of fixed defects (auxiliary; replayed against the real code)
    if hasattr(mod, "regressions") and not a.only:
        from symx import harness as _hn

        rp = _hn.replay(lambda h, **p: mod.regressions(h), {}, {}, patch_rng=False)
        agg["regression_witnesses"] = len(rp.get("checked", []))
        if rp["status"] != "ok" or rp["failed"]:
            violations.append({"obligation": "regression witness: " + "; ".join(rp.get("failed", [])[:3] or [rp.get("exc", "")]),
                               "witness": {}, "params": {"kind": "__regressions__"}, "replay": rp, "kind": "regression"})

    # ---- known findings
    known = [k for k in load_known() if k.get("property") == prop]
    open_known = [k for k in known if k.get("status") == "open"]
    known_lines, new_violations = [], []
    match = getattr(mod, "match_known", None)
    known_hits = [v for r in results for v in r.get("known_hits", [])]
    matched_ids = {v["known_id"] for v in known_hits}
    for v in violations:
        kid = match(v, open_known) if match else None
        if kid is not None:
            matched_ids.add(kid)
            known_hits.append(dict(v, known_id=kid))
        else:
            new_violations.append(v)
    for k in open_known:
        if k["id"] in matched_ids:
            n = len([v for v in known_hits if v.get("known_id") == k["id"]])
            known_lines.append(f"KNOWN-FINDING: property={prop} {k['id']}: {k['what']} [still reproduced on {n} work item(s)/path(s) of this run]")
        elif not a.only:
            known_lines.append(f"KNOWN-FINDING-STALE property={prop} {k['id']}: no longer reproduced by this run (remove it from known_findings.json if it was fixed)")

    # ---- replays
    replay_paths = []
    rdir = HERE / "evidence" / "replays"
    for v in new_violations[:10]:
        rdir.mkdir(parents=True, exist_ok=True)
        blob = json.dumps({"property": prop, "params": v["params"], "witness": v["witness"], "obligation": v["obligation"],
                           "replay_result": v["replay"], "kind": v["kind"]}, indent=1, sort_keys=True, default=str)
        hsh = hashlib.sha1(blob.encode()).hexdigest()[:10]
        p = rdir / f"{prop}-{hsh}.json"
        p.write_text(blob)
        replay_paths.append(str(p))

    wall = round(time.time() - t0, 2)
    meta = getattr(mod, "META", {})
    samples = []
    for r in results:
        for s in r["samples"][:2]:
            samples.append(dict(s, params=r["params"]))
        if len(samples) >= 8:
            break
    if not samples:
        samples = [{"note": "no obligations reached", "params": r["params"]} for r in results[:1]] or [{"note": "no work items"}]
    for v in new_violations[:3]:
        samples.append({"violation": v["obligation"], "witness": v["witness"], "params": v["params"], "replay": v["replay"]})
    evidence = {
        "property_id": prop, "tier": a.tier, "seed": seed, "level": "model_checking",
        "coverage": {
            "states": max(agg["paths"], 0), "transitions": agg["decisions"] + agg["paths"],
            "traces_validated_against_impl": len(violations),
            "samples": samples,
            "evaluations": agg["queries"], "distinct_nontrivial": agg["nontrivial_keys"],
            "rule": "one case = (work item, feasible path of the real code, obligation) whose obligation is not syntactically True; "
                    "each is decided by one z3 query PC ∧ ¬obligation over ALL values of the symbolic inputs within the stated shapes; "
                    "states = feasible paths explored, transitions = branch decisions taken plus one completed run per feasible path",
            "obligations": agg["obligations"], "discharged": agg["discharged"], "trivially_true": agg["trivial"],
            "work_items": len(items), "regression_witnesses_replayed": agg.get("regression_witnesses", 0), "solver_s": solver_s, "solver_checks": agg["checks"], "rng_stub_calls": agg["rng_calls"],
            "exhaustive": False,
            "functions_encoded": functions or meta.get("functions", []),
            "bounds": meta.get("bounds", {}).get(a.tier, meta.get("bounds", {})),
            "covers": covers, "cuts": cuts,
            "inconclusive": inconclusive[:5], "known_findings": known_lines, "known_finding_hits": len(known_hits),
            "engine": "SYMX: real source of $VERIF_REPO/score_analysis re-read and executed over a z3-backed NumPy model; z3 " + _z3v(),
        },
        "assumptions": meta.get("assumptions", []) + [
            "NumPy/SciPy/pandas are replaced by the symx models (contracts documented in DESIGN.md §1.3)",
            "counter-models are replayed against the real package under real NumPy before being reported"],
        "wall_s": wall, "violations": len(new_violations),
    }
    if not a.no_evidence:
        (HERE / "evidence").mkdir(exist_ok=True)
        (HERE / "evidence" / f"{prop}.json").write_text(json.dumps(evidence, indent=1, default=str))

    for line in known_lines:
        print(line)
    print(f"[{prop}] tier={a.tier} items={len(items)} paths={agg['paths']} decisions={agg['decisions']} obligations={agg['obligations']} "
          f"discharged={agg['discharged']} queries={agg['queries']} solver_s={solver_s} wall_s={wall}")
    if new_violations:
        for p in replay_paths:
            print(f"VIOLATION property={prop} replay={p}")
        for v in new_violations[:5]:
            print("  obligation:", v["obligation"], "params:", json.dumps(v["params"], default=str), "witness:", json.dumps(v["witness"], default=str),
                  "replay:", json.dumps({k: v["replay"].get(k) for k in ("status", "failed", "exc")}, default=str))
        return EXIT_VIOLATION
    if inconclusive:
        for i in inconclusive[:10]:
            print(f"INCONCLUSIVE property={prop} reason={i.get('reason')} obligation={i.get('obligation')} params={json.dumps(i.get('params'), default=str)}")
            if i.get("tb") and os.environ.get("VERIF_DEBUG"):
                print(i["tb"])
            if os.environ.get("VERIF_DEBUG") and i.get("last_replay"):
                print("   last replay:", i["last_replay"])
        return EXIT_INCONCLUSIVE
    missing = [t for t in meta.get("required_covers", []) if t not in covers] if not a.only else []
    if missing:
        print(f"INCONCLUSIVE property={prop} reason=unreached-covers:{','.join(missing)}")
        return EXIT_INCONCLUSIVE
    if agg["obligations"] == 0 or agg["paths"] == 0:
        print(f"INCONCLUSIVE property={prop} reason=vacuous-run")
        return EXIT_INCONCLUSIVE
    extra = f" (apart from {len(known_hits)} hit(s) of listed known findings)" if known_hits else ""
    print(f"OK property={prop}: all {agg['obligations']} obligations discharged on {agg['paths']} paths{extra}")
    return EXIT_OK


def _z3v():
    import z3

    return z3.get_version_string()


if __name__ == "__main__":
    sys.exit(main())
