"""SYMX core: symbolic scalars, path exploration by re-execution, solver plumbing.

Values
------
A *cell* / raw value is one of
  * Python ``bool`` / ``int``                     (concrete, dtype b / i)
  * ``fractions.Fraction``                         (concrete finite real, dtype f; exact)
  * Python ``float`` that is nan / +inf / -inf     (concrete special, dtype f)
  * ``str`` / ``None`` / arbitrary Python objects  (dtype U / O)
  * a z3 expression of sort Int / Real / Bool / String (symbolic)
Python floats met anywhere are lifted to the exact Fraction they denote.

User-visible scalars: ``SV`` (symbolic) and ``I``/``Q``/``F`` (concrete numpy-scalar look-alikes).
"""
from __future__ import annotations

import math as _math
import time
from fractions import Fraction

import z3

__all__ = [
    "Unsupported", "Infeasible", "Budget", "SV", "I", "Q", "F", "raw", "box", "wrap", "ite",
    "Explorer", "cur", "decide", "is_sym", "is_special", "fold", "concretize_int", "to_z3",
    "lift_float", "sort_of",
]


class Unsupported(Exception):
    """Raised when the code under analysis leaves the modelled fragment -> INCONCLUSIVE."""


class Infeasible(BaseException):
    """Current path condition became unsatisfiable (path dies)."""


class Budget(BaseException):
    """Exploration budget exhausted."""


# ----------------------------------------------------------------------------------------
# raw value helpers


def lift_float(x):
    """Python float -> exact Fraction (finite) or itself (nan/inf)."""
    if x != x or x in (_math.inf, -_math.inf):
        return float(x)
    return Fraction(x)


def is_sym(x):
    return isinstance(x, z3.ExprRef)


def is_special(x):
    return type(x) is float or isinstance(x, F)


def raw(x):
    """Strip user-visible wrappers to a raw cell value."""
    if isinstance(x, SV):
        return x.e
    if isinstance(x, z3.ExprRef):
        return x
    if isinstance(x, bool):
        return x
    if isinstance(x, I):
        return int(x)
    if isinstance(x, Q):
        return Fraction(x)
    if isinstance(x, F):
        return float(x)
    if isinstance(x, float):
        return lift_float(x)
    if isinstance(x, (int, Fraction, str)) or x is None:
        return x
    if type(x).__name__ == "FPV":
        return x
    try:  # real numpy scalars handed in by harnesses
        import numpy as _np

        if isinstance(x, _np.bool_):
            return bool(x)
        if isinstance(x, _np.integer):
            return int(x)
        if isinstance(x, _np.floating):
            return lift_float(float(x))
        if isinstance(x, _np.str_):
            return str(x)
    except ImportError:  # pragma: no cover
        pass
    return x


def wrap(e):
    """z3 expr -> raw value, folding literals to Python values."""
    if isinstance(e, z3.ExprRef):
        e = z3.simplify(e)
        if z3.is_int_value(e):
            return e.as_long()
        if z3.is_rational_value(e):
            return Fraction(e.numerator_as_long(), e.denominator_as_long())
        if z3.is_true(e):
            return True
        if z3.is_false(e):
            return False
        if z3.is_string_value(e):
            return e.as_string()
        return e
    return e


CONCRETE = [False]      # conformance mode: no solver, scalars leave the model as real numpy scalars


def box(v):
    """raw value -> user-visible scalar (numpy-scalar look-alike)."""
    if type(v).__name__ == "FPV":
        return v
    if CONCRETE[0] and not isinstance(v, z3.ExprRef):
        import numpy as _np

        if isinstance(v, bool):
            return _np.bool_(v)
        if isinstance(v, int):
            return _np.int64(v)
        if isinstance(v, Fraction):
            return _np.float64(float(v))
        if isinstance(v, float):
            return _np.float64(v)
        return v
    if isinstance(v, z3.ExprRef):
        v = wrap(v)
        if isinstance(v, z3.ExprRef):
            return SV(v)
    if isinstance(v, bool):
        return v
    if isinstance(v, int):
        return I(v)
    if isinstance(v, Fraction):
        return Q(v)
    if isinstance(v, float):
        v = lift_float(v)
        return F(v) if isinstance(v, float) else Q(v)
    return v


def sort_of(v):
    """dtype letter of a raw value."""
    if type(v).__name__ == "FPV":
        return "f"
    if isinstance(v, z3.ExprRef):
        s = v.sort()
        if s == z3.IntSort():
            return "i"
        if s == z3.RealSort():
            return "f"
        if s == z3.BoolSort():
            return "b"
        if s == z3.StringSort():
            return "U"
        return "O"
    if isinstance(v, bool):
        return "b"
    if isinstance(v, int):
        return "i"
    if isinstance(v, (Fraction, float)):
        return "f"
    if isinstance(v, str):
        return "U"
    return "O"


def to_z3(v, like=None):
    """raw value -> z3 expr (numbers/bools/strings). `like` = another z3 expr to coerce sort to."""
    if isinstance(v, z3.ExprRef):
        e = v
    elif isinstance(v, bool):
        e = z3.BoolVal(v)
    elif isinstance(v, int):
        e = z3.IntVal(v)
    elif isinstance(v, Fraction):
        e = z3.Q(v.numerator, v.denominator)
    elif isinstance(v, str):
        e = z3.StringVal(v)
    elif isinstance(v, float):
        v2 = lift_float(v)
        if isinstance(v2, float):
            raise Unsupported("special float in symbolic term")
        e = z3.Q(v2.numerator, v2.denominator)
    else:
        raise Unsupported(f"cannot lift {type(v).__name__} into a term")
    if like is not None:
        ls = like.sort() if isinstance(like, z3.ExprRef) else like
        if ls == z3.RealSort() and e.sort() == z3.IntSort():
            e = z3.ToReal(e)
        elif ls == z3.RealSort() and e.sort() == z3.BoolSort():
            e = z3.If(e, z3.RealVal(1), z3.RealVal(0))
        elif ls == z3.IntSort() and e.sort() == z3.BoolSort():
            e = z3.If(e, z3.IntVal(1), z3.IntVal(0))
    return e


def _num(e):
    """z3 Bool -> Int for arithmetic use."""
    if e.sort() == z3.BoolSort():
        return z3.If(e, z3.IntVal(1), z3.IntVal(0))
    return e


def _coerce2(a, b):
    """two raw values, at least one symbolic -> two z3 numeric exprs of a common sort."""
    a = _num(to_z3(a)) if not isinstance(a, str) else to_z3(a)
    b = _num(to_z3(b)) if not isinstance(b, str) else to_z3(b)
    if a.sort() != b.sort():
        if a.sort() == z3.IntSort() and b.sort() == z3.RealSort():
            a = z3.ToReal(a)
        elif b.sort() == z3.IntSort() and a.sort() == z3.RealSort():
            b = z3.ToReal(b)
        else:
            raise Unsupported(f"sort mismatch {a.sort()} vs {b.sort()}")
    return a, b


# ----------------------------------------------------------------------------------------
# raw arithmetic (shared by scalars and arrays)


def _sign_fork(x):
    """-1/0/1 of a raw value, forking if symbolic."""
    if is_sym(x):
        if decide(_num(x) > 0):
            return 1
        if decide(_num(x) < 0):
            return -1
        return 0
    if x != x:
        return None
    return (x > 0) - (x < 0)


def _fpv():
    from . import fp

    return fp.FPV


def _has_fp(a, b=None):
    n = type(a).__name__
    return n == "FPV" or (b is not None and type(b).__name__ == "FPV")


def r_add(a, b):
    if _has_fp(a, b):
        return a + b if type(a).__name__ == "FPV" else b.__radd__(a)
    sa, sb = is_sym(a), is_sym(b)
    if not sa and not sb:
        return _cfix(_cnum(a) + _cnum(b))
    if is_special(a) or is_special(b):
        sp = a if is_special(a) else b
        return float(sp)  # finite + inf = inf, + nan = nan
    x, y = _coerce2(a, b)
    return _track_int(wrap(x + y))


def _track_int(v):
    """remember symbolic Int results so a harness can demand that they fit NumPy's int64"""
    ex = _CUR[0]
    if ex is not None and ex.track_int64 and isinstance(v, z3.ExprRef) and v.sort() == z3.IntSort():
        ex.int_results.append(v)
    return v


def r_neg(a):
    if _has_fp(a):
        return -a
    if is_sym(a):
        return wrap(-_num(a))
    return _cfix(-_cnum(a))


def r_sub(a, b):
    return r_add(a, r_neg(b))


def r_mul(a, b):
    if _has_fp(a, b):
        return a * b if type(a).__name__ == "FPV" else b.__rmul__(a)
    sa, sb = is_sym(a), is_sym(b)
    if not sa and not sb:
        a, b = _cnum(a), _cnum(b)
        if (is_special(a) and b == 0) or (is_special(b) and a == 0):
            return _math.nan
        return _cfix(a * b)
    if is_special(a) or is_special(b):
        sp, ot = (a, b) if is_special(a) else (b, a)
        if sp != sp:
            return _math.nan
        s = _sign_fork(ot)
        if s == 0:
            return _math.nan
        return float(sp) * s
    # cheap special cases keep terms linear
    if not sa and a == 0:
        return 0 if sort_of(b) in "ib" and isinstance(a, int) else Fraction(0)
    if not sb and b == 0:
        return 0 if sort_of(a) in "ib" and isinstance(b, int) else Fraction(0)
    x, y = _coerce2(a, b)
    if sa and sb and _CUR[0] is not None and _CUR[0].defer_nonlinear:
        return _deferred("mul", x, y, lambda v: v == x * y, sort=x.sort())
    return _track_int(wrap(x * y))


def _deferred(tag, x, y, definition, sort=None):
    """abstract a nonlinear term by a fresh constant; its definition is only handed to the solver for
    obligation queries (feasibility checks see an over-approximation)."""
    ex = _CUR[0]
    key = ("deferred", tag, x.get_id(), y.get_id() if y is not None else None)
    if tag == "mul" and ("deferred", tag, y.get_id(), x.get_id()) in ex.memo:
        key = ("deferred", tag, y.get_id(), x.get_id())
    if key in ex.memo:
        return ex.memo[key]
    v = ex.fresh_int(tag) if sort is not None and sort == z3.IntSort() else ex.fresh_real(tag)
    ex.defs.append(definition(v))
    ex.memo[key] = v
    return v


def r_div(a, b):
    """true division with IEEE special results; forks on symbolic zero divisors."""
    if _has_fp(a, b):
        return a / b if type(a).__name__ == "FPV" else b.__rtruediv__(a)
    sa, sb = is_sym(a), is_sym(b)
    if not sa and not sb:
        a, b = _cnum(a), _cnum(b)
        if is_special(a) or is_special(b):
            try:
                return _cfix(float(a) / float(b))
            except ZeroDivisionError:
                return _math.nan if a != a else _math.copysign(_math.inf, a)
        if b == 0:
            if a == 0:
                return _math.nan
            return _math.inf if a > 0 else -_math.inf
        return Fraction(a) / Fraction(b)
    if is_special(b):
        if b != b:
            return _math.nan
        return Fraction(0)
    if is_special(a):
        if a != a:
            return _math.nan
        s = _sign_fork(b)
        if s == 0:
            return float(a)  # inf/0 = inf
        return float(a) * s
    if sb:
        if decide(_num(b) == 0):
            s = _sign_fork(a)
            if s == 0:
                return _math.nan
            return _math.inf * s
    elif b == 0:
        s = _sign_fork(a)
        if s == 0:
            return _math.nan
        return _math.inf * s
    x, y = _coerce2(a, b)
    if x.sort() == z3.IntSort():
        x, y = z3.ToReal(x), z3.ToReal(y)
    if sb and _CUR[0] is not None and _CUR[0].defer_nonlinear:
        return _deferred("div", x, y, lambda v: v * y == x)
    return wrap(x / y)


def r_floordiv(a, b):
    if not is_sym(a) and not is_sym(b):
        return _cfix(_cnum(a) // _cnum(b))
    if is_sym(b) or not isinstance(b, int) or isinstance(b, bool) or b <= 0:
        raise Unsupported("floor division by non-positive-constant")
    if sort_of(a) not in "ib":
        return wrap(z3.ToReal(z3.ToInt(to_z3(a) / b)))
    return wrap(_num(a) / b)  # z3 int division floors for positive divisors


def r_mod(a, b):
    if not is_sym(a) and not is_sym(b):
        return _cfix(_cnum(a) % _cnum(b))
    if is_sym(b) or not isinstance(b, int) or isinstance(b, bool) or b <= 0 or sort_of(a) not in "ib":
        raise Unsupported("modulo by non-positive-constant / non-int")
    return wrap(_num(a) % b)


def r_sqrt(a):
    """sqrt as an exact rational if possible, else a fresh non-negative symbol y with y*y = a."""
    if _has_fp(a):
        return a.sqrt()
    if not is_sym(a):
        a = _cnum(a)
        if is_special(a):
            return _math.sqrt(a) if a == a and a > 0 else _math.nan
        if a < 0:
            return _math.nan
        a = Fraction(a)
        n, d = _math.isqrt(a.numerator), _math.isqrt(a.denominator)
        if n * n == a.numerator and d * d == a.denominator:
            return Fraction(n, d)
    else:
        if decide(_num(a) < 0):
            return _math.nan
    if CONCRETE[0] and not is_sym(a):
        return lift_float(_math.sqrt(float(a)))
    ex = cur()
    key = ("sqrt", str(a) if not is_sym(a) else a.sexpr())
    if key in ex.memo:
        return ex.memo[key]
    y = ex.fresh_real("sqrt")
    az = to_z3(a, like=z3.RealSort())
    if ex.defer_nonlinear:
        ex.assume(y >= 0, axiom=True)
        ex.assume(z3.Implies(az == 0, y == 0), axiom=True)
        ex.assume(z3.Implies(az > 0, y > 0), axiom=True)
        ex.defs.append(y * y == az)
    else:
        ex.assume(z3.And(y >= 0, y * y == az), axiom=True)
    if not is_sym(a):  # keep nonlinear reasoning cheap: give a tight numeric enclosure as well
        f = _math.sqrt(float(a))
        lo, hi = Fraction(f) * (1 - Fraction(1, 10**12)), Fraction(f) * (1 + Fraction(1, 10**12))
        ex.assume(z3.And(y >= to_z3(lo), y <= to_z3(hi)), axiom=True)
    ex.memo[key] = y
    return y


def r_pow(a, p):
    if is_sym(p):
        raise Unsupported("symbolic exponent")
    p = _cnum(p)
    if isinstance(p, int) and not isinstance(p, bool) and 0 <= p <= 4:
        out = 1
        for _ in range(p):
            out = r_mul(out, a)
        return out
    if Fraction(p) == Fraction(1, 2):
        return r_sqrt(a)
    if Fraction(p) == Fraction(3, 2):
        return r_mul(a, r_sqrt(a))
    if not is_sym(a):
        a = _cnum(a)
        if isinstance(p, int) and p < 0 and a != 0 and not is_special(a):
            return Fraction(a) ** p
        return irrational_const("pow", float(a) ** float(p), (str(a), str(p)))
    raise Unsupported(f"power {p} of symbolic value")


def irrational_const(tag, fval, key):
    """A concrete irrational constant: fresh real symbol enclosed within +-1e-12 relative of its
    float value (so R-ideal reasoning never depends on more than that)."""
    if fval != fval or fval in (_math.inf, -_math.inf):
        return float(fval)
    fr = Fraction(fval)
    if CONCRETE[0]:
        return fr
    ex = cur()
    k = (tag,) + tuple(key)
    if k in ex.memo:
        return ex.memo[k]
    y = ex.fresh_real(tag)
    eps = abs(fr) * Fraction(1, 10**12) + Fraction(1, 10**300)
    ex.assume(z3.And(y >= to_z3(fr - eps), y <= to_z3(fr + eps)), axiom=True)
    ex.memo[k] = y
    return y


def _cnum(v):
    """concrete raw -> Python number usable in arithmetic."""
    if isinstance(v, bool):
        return int(v)
    if isinstance(v, float):
        return lift_float(v)
    if isinstance(v, (int, Fraction)):
        return v
    raise Unsupported(f"arithmetic on {type(v).__name__}")


def _cfix(v):
    if isinstance(v, float):
        return lift_float(v)
    if isinstance(v, Fraction) and not isinstance(v, Q):
        return v
    if isinstance(v, Q):
        return Fraction(v)
    return v


_CMP = {
    "lt": (lambda a, b: a < b), "le": (lambda a, b: a <= b), "gt": (lambda a, b: a > b),
    "ge": (lambda a, b: a >= b), "eq": (lambda a, b: a == b), "ne": (lambda a, b: a != b),
}


def r_cmp(op, a, b):
    if _has_fp(a, b):
        if type(a).__name__ != "FPV":
            from . import fp

            a = fp.lift(a)
        return raw({"lt": a.__lt__, "le": a.__le__, "gt": a.__gt__, "ge": a.__ge__, "eq": a.__eq__, "ne": a.__ne__}[op](b))
    sa, sb = is_sym(a), is_sym(b)
    if not sa and not sb:
        if isinstance(a, str) or isinstance(b, str) or a is None or b is None:
            return _CMP[op](a, b)
        try:
            return bool(_CMP[op](_cnum(a), _cnum(b)))
        except Unsupported:
            return bool(_CMP[op](a, b))
    if is_special(a) or is_special(b):
        sp, first = (a, True) if is_special(a) else (b, False)
        if sp != sp:
            return op == "ne"
        # finite symbolic vs +-inf
        big = sp > 0
        if op in ("eq",):
            return False
        if op == "ne":
            return True
        if first:  # inf ? x
            return {"lt": not big, "le": not big, "gt": big, "ge": big}[op]
        return {"lt": big, "le": big, "gt": not big, "ge": not big}[op]
    ca, cb = a, b
    if isinstance(ca, str) or isinstance(cb, str) or sort_of(ca) == "U" or sort_of(cb) == "U":
        if sort_of(ca) != "U" or sort_of(cb) != "U":
            return op == "ne"
        x, y = to_z3(ca), to_z3(cb)
    elif sort_of(ca) == "b" and sort_of(cb) == "b" and op in ("eq", "ne"):
        x, y = to_z3(ca), to_z3(cb)
    else:
        if (not sa and not isinstance(ca, (bool, int, Fraction, float))) or (
            not sb and not isinstance(cb, (bool, int, Fraction, float))
        ):
            return op == "ne"  # symbolic number vs arbitrary object
        x, y = _coerce2(ca, cb)
    return wrap(_CMP[op](x, y))


def r_not(a):
    if is_sym(a):
        if a.sort() != z3.BoolSort():
            raise Unsupported("~ on non-bool symbolic")
        return wrap(z3.Not(a))
    if isinstance(a, bool):
        return not a
    return ~a


def r_and(a, b):
    if not is_sym(a) and not is_sym(b):
        return (a and b) if isinstance(a, bool) and isinstance(b, bool) else a & b
    if (not is_sym(a) and not isinstance(a, bool)) or (not is_sym(b) and not isinstance(b, bool)):
        raise Unsupported("& on non-bool")
    return wrap(z3.And(to_z3(a), to_z3(b)))


def r_or(a, b):
    if not is_sym(a) and not is_sym(b):
        return (a or b) if isinstance(a, bool) and isinstance(b, bool) else a | b
    if (not is_sym(a) and not isinstance(a, bool)) or (not is_sym(b) and not isinstance(b, bool)):
        raise Unsupported("| on non-bool")
    return wrap(z3.Or(to_z3(a), to_z3(b)))


def r_xor(a, b):
    if not is_sym(a) and not is_sym(b):
        return a ^ b
    return wrap(z3.Xor(to_z3(a), to_z3(b)))


def r_abs(a):
    if _has_fp(a):
        return abs(a)
    if is_sym(a):
        a = _num(a)
        return wrap(z3.If(a >= 0, a, -a))
    return _cfix(abs(_cnum(a)))


def r_floor(a):
    """np.floor: float in, float out."""
    if _has_fp(a):
        return a.round_to_integral("floor")
    if is_sym(a):
        if a.sort() == z3.IntSort():
            return wrap(z3.ToReal(a))
        return wrap(z3.ToReal(z3.ToInt(a)))
    a = _cnum(a)
    if is_special(a):
        return a
    return Fraction(_math.floor(a))


def r_rint(a):
    """np.rint / np.round(decimals=0): round half to even; float in, float out."""
    if _has_fp(a):
        return a.round_to_integral("even")
    if is_sym(a):
        if a.sort() == z3.IntSort():
            return wrap(z3.ToReal(a))
        f = z3.ToInt(a)                         # floor
        d = a - z3.ToReal(f)
        half = z3.RealVal("1/2")
        up = z3.Or(d > half, z3.And(d == half, f % 2 != 0))
        return wrap(z3.ToReal(z3.If(up, f + 1, f)))
    a = _cnum(a)
    if is_special(a):
        return a
    return Fraction(round(Fraction(a)))


def r_ceil(a):
    if _has_fp(a):
        return a.round_to_integral("ceil")
    if is_sym(a):
        if a.sort() == z3.IntSort():
            return wrap(z3.ToReal(a))
        f = z3.ToInt(a)
        return wrap(z3.If(z3.ToReal(f) == a, z3.ToReal(f), z3.ToReal(f + 1)))
    a = _cnum(a)
    if is_special(a):
        return a
    return Fraction(_math.ceil(a))


def r_trunc_int(a):
    """astype(int): truncation toward zero."""
    if is_sym(a):
        if a.sort() == z3.IntSort():
            return a
        if a.sort() == z3.BoolSort():
            return _num(a)
        return wrap(z3.If(a >= 0, z3.ToInt(a), -z3.ToInt(-a)))
    if isinstance(a, bool):
        return int(a)
    if isinstance(a, int):
        return a
    if isinstance(a, str):
        return int(a)
    a = _cnum(a)
    if is_special(a):
        raise Unsupported("astype(int) of nan/inf")
    return _math.trunc(a)


def r_to_float(a):
    if type(a).__name__ == "FPV":
        return a
    if is_sym(a):
        if a.sort() == z3.RealSort():
            return a
        return wrap(z3.ToReal(_num(a)))
    if isinstance(a, (bool, int)):
        return Fraction(int(a))
    if isinstance(a, str):
        return lift_float(float(a))
    return _cnum(a)


def r_to_bool(a):
    if is_sym(a):
        if a.sort() == z3.BoolSort():
            return a
        return wrap(a != 0)
    if isinstance(a, float):
        return True  # nan/inf are truthy
    return bool(a)


def ite(c, a, b):
    """If-merge of raw values; forks when a branch is not representable as a term."""
    c = raw(c)
    a, b = raw(a), raw(b)
    if not is_sym(c):
        return a if c else b
    if _has_fp(a, b):
        from . import fp

        return fp.FPV(z3.If(c, fp.lift(a).e, fp.lift(b).e))
    if not is_sym(a) and not is_sym(b):
        try:
            if type(a) is type(b) and a == b:
                return a
        except Exception:
            pass
    mergeable = lambda v: is_sym(v) or isinstance(v, (bool, int, Fraction, str))
    if not (mergeable(a) and mergeable(b)):
        return a if decide(c) else b
    sa, sb = sort_of(a), sort_of(b)
    if "U" in (sa, sb) and sa != sb:
        return a if decide(c) else b
    if sa == sb == "b":
        return wrap(z3.If(c, to_z3(a), to_z3(b)))
    if sa == sb == "U":
        return wrap(z3.If(c, to_z3(a), to_z3(b)))
    x, y = _coerce2(a, b)
    return wrap(z3.If(c, x, y))


# ----------------------------------------------------------------------------------------
# user-visible scalars


class _NPScalarMixin:
    shape = ()
    ndim = 0
    size = 1

    def item(self):
        return self

    def tolist(self):
        return self

    def flatten(self):
        from . import np as _np

        return _np.asarray([self])

    def reshape(self, *shape):
        from . import np as _np

        return _np.asarray(self).reshape(*shape)

    def __getitem__(self, key):
        from . import np as _np

        return _np.asarray(self)[key]

    def astype(self, t):
        from . import np as _np

        return box(_np._cast(raw(self), _np._dt(t)))

    @property
    def dtype(self):
        from . import np as _np

        return _np.dtype(sort_of(raw(self)))

    @property
    def T(self):
        return self

    def copy(self):
        return self

    def any(self):
        return box(r_to_bool(raw(self)))

    all = any

    def sum(self, *a, **k):
        return self

    min = max = sum


def _binop(fn, swap=False):
    def f(self, other):
        if _is_array(other):
            return NotImplemented
        o = raw(other)
        if not (is_sym(o) or isinstance(o, (bool, int, Fraction, float, str)) or o is None):
            return NotImplemented
        try:
            return box(fn(o, raw(self)) if swap else fn(raw(self), o))
        except Unsupported:
            if isinstance(o, str) or o is None:
                return NotImplemented
            raise

    return f


def _cmpop(op):
    def f(self, other):
        if _is_array(other):
            return NotImplemented
        return box(r_cmp(op, raw(self), raw(other)))

    return f


def _is_array(x):
    from . import np as _np

    return isinstance(x, _np.ndarray)


class SV(_NPScalarMixin):
    """symbolic scalar wrapping a z3 expression."""

    __slots__ = ("e",)
    __array_priority__ = 1000

    def __init__(self, e):
        self.e = e

    def __repr__(self):
        return f"SV({self.e})"

    __str__ = __repr__

    def __format__(self, spec):
        return repr(self)

    __add__ = _binop(r_add)
    __radd__ = _binop(r_add, True)
    __sub__ = _binop(r_sub)
    __rsub__ = _binop(r_sub, True)
    __mul__ = _binop(r_mul)
    __rmul__ = _binop(r_mul, True)
    __truediv__ = _binop(r_div)
    __rtruediv__ = _binop(r_div, True)
    __floordiv__ = _binop(r_floordiv)
    __rfloordiv__ = _binop(r_floordiv, True)
    __mod__ = _binop(r_mod)
    __pow__ = _binop(r_pow)
    __and__ = _binop(r_and)
    __rand__ = _binop(r_and, True)
    __or__ = _binop(r_or)
    __ror__ = _binop(r_or, True)
    __xor__ = _binop(r_xor)
    __rxor__ = _binop(r_xor, True)
    __lt__ = _cmpop("lt")
    __le__ = _cmpop("le")
    __gt__ = _cmpop("gt")
    __ge__ = _cmpop("ge")
    __eq__ = _cmpop("eq")
    __ne__ = _cmpop("ne")

    def __hash__(self):
        # dict / set look-ups: fork over the feasible values of the key, then hash the concrete value; the
        # subsequent __eq__ against the stored key is decided by the path condition
        e = self.e
        if e.sort() == z3.IntSort():
            return hash(concretize_int(e))
        if e.sort() == z3.BoolSort():
            return hash(decide(e))
        if e.sort() == z3.StringSort():
            # constant hash: look-ups go through __eq__ (forks). Sound only while every key of the container is a
            # symbolic string (C18 label items); mixing with concrete str keys is not supported.
            return 0
        raise Unsupported("hashing a symbolic real (use concrete keys with symbolic membership)")

    def __neg__(self):
        return box(r_neg(self.e))

    def __pos__(self):
        return self

    def __abs__(self):
        return box(r_abs(self.e))

    def __invert__(self):
        return box(r_not(self.e))

    def __bool__(self):
        e = self.e
        if e.sort() != z3.BoolSort():
            if e.sort() == z3.StringSort():
                e = z3.Length(e) != 0
            else:
                e = e != 0
        return decide(e)

    def __index__(self):
        return concretize_int(self.e)

    def __int__(self):
        return concretize_int(r_trunc_int(self.e))

    def __float__(self):
        raise Unsupported("float() of a symbolic value")

    def __round__(self, n=None):
        raise Unsupported("round() of a symbolic value")

    def __len__(self):
        if self.e.sort() == z3.StringSort():
            return concretize_int(z3.Length(self.e))
        raise TypeError("object of type 'SV' has no len()")

    def __iter__(self):
        if self.e.sort() == z3.StringSort():
            from . import strings

            return iter(strings.chars(self))
        raise TypeError("'SV' object is not iterable")

    # string protocol used by showbias
    def split(self, sep=None, maxsplit=-1):
        from . import strings

        return strings.split(self, sep, maxsplit)

    def join(self, parts):
        from . import strings

        return strings.join(self, parts)


class I(_NPScalarMixin, int):
    """concrete integer numpy-scalar look-alike."""


class Q(_NPScalarMixin, Fraction):
    """concrete finite float (exact rational) numpy-scalar look-alike."""

    def __new__(cls, v=0, d=None):
        if isinstance(v, float):
            v = Fraction(v)
        return super().__new__(cls, v) if d is None else super().__new__(cls, v, d)

    def __repr__(self):
        return f"Q({Fraction(self)})"

    __str__ = __repr__

    def __format__(self, spec):
        return format(float(self), spec)


def _q_arith(name):
    base = getattr(Fraction, name)

    def f(self, other):
        if isinstance(other, SV) or _is_array(other):
            return NotImplemented
        if isinstance(other, float):
            other = lift_float(other)
            if isinstance(other, float):  # special
                return box({"__add__": r_add, "__radd__": lambda a, b: r_add(b, a), "__sub__": r_sub,
                            "__rsub__": lambda a, b: r_sub(b, a), "__mul__": r_mul,
                            "__rmul__": lambda a, b: r_mul(b, a), "__truediv__": r_div,
                            "__rtruediv__": lambda a, b: r_div(b, a)}[name](Fraction(self), other))
        if name in ("__truediv__",) and other == 0:
            return box(r_div(Fraction(self), raw(other)))
        if name in ("__rtruediv__",) and self == 0:
            return box(r_div(raw(other), Fraction(self)))
        r = base(self, other)
        if r is NotImplemented:
            return r
        return box(r) if isinstance(r, (Fraction, float)) else r

    return f


for _n in ("__add__", "__radd__", "__sub__", "__rsub__", "__mul__", "__rmul__", "__truediv__", "__rtruediv__",
           "__floordiv__", "__rfloordiv__", "__mod__", "__rmod__"):
    setattr(Q, _n, _q_arith(_n))
Q.__neg__ = lambda self: Q(-Fraction(self))
Q.__abs__ = lambda self: Q(abs(Fraction(self)))
Q.__pos__ = lambda self: self


def _q_pow(self, p):
    return box(r_pow(Fraction(self), raw(p)))


Q.__pow__ = _q_pow


def _q_cmp(op):
    def f(self, other):
        if isinstance(other, SV) or _is_array(other):
            return NotImplemented
        return r_cmp(op, Fraction(self), raw(other))

    return f


for _op in ("lt", "le", "gt", "ge", "eq", "ne"):
    setattr(Q, f"__{_op}__", _q_cmp(_op))
Q.__hash__ = lambda self: Fraction.__hash__(self)


class F(_NPScalarMixin, float):
    """concrete nan / +-inf numpy-scalar look-alike."""


# ----------------------------------------------------------------------------------------
# exploration


class Explorer:
    """Runs a harness repeatedly, once per feasible decision sequence.

    One incremental z3 solver; `levels` pushes mirror the decisions of the current run."""

    def __init__(self, assumptions=(), check_timeout_ms=10000, max_paths=20000, max_decisions=400,
                 logic=None, tactic=None):
        self.solver = z3.Solver() if not logic else z3.SolverFor(logic)
        self.solver.set("timeout", check_timeout_ms)
        self.check_timeout_ms = check_timeout_ms
        self.assumptions = list(assumptions)
        for a in self.assumptions:
            self.solver.add(a)
        self.max_paths = max_paths
        self.max_decisions = max_decisions
        self.defer_nonlinear = False
        self.nl_fallback = False
        self.stop = False
        self.stats = {"checks": 0, "solver_s": 0.0, "paths": 0, "infeasible_runs": 0, "decisions": 0,
                      "unknown": 0, "forced": 0}
        self._reset_run([])

    # ---- per-run state
    def _reset_run(self, prefix):
        self.prefix = prefix
        self.trace = []      # decisions (bool)
        self.forced = []     # parallel to trace
        self.pc = []         # z3 constraints in order (decisions and assumes)
        self.model = None
        self.memo = {}
        self.fresh_n = {}
        self.rng_log = []
        self.cuts = []
        self.obligations = []   # (name, verdict, info)
        self.covers = set()
        self.pending = []    # sibling prefixes discovered in this run
        self.levels = 0
        self.inputs = {}     # name -> z3 const (declared by harness)
        self.axiom_terms = {}
        self.inputs_rng = []
        self.defs = []       # deferred nonlinear definitions (added to obligation queries only)
        self._pc_ids = set()
        self.track_int64 = False
        self.int_results = []

    def _pop_all(self):
        while self.levels:
            self.solver.pop()
            self.levels -= 1

    # ---- solver
    def check(self, *extra):
        t0 = time.time()
        self.stats["checks"] += 1
        r = self.solver.check(*extra)
        dt = time.time() - t0
        self.stats["solver_s"] += dt
        if dt > 1.0 and _SLOW:
            import traceback as _tb
            fr = [f"{f.name}:{f.lineno}" for f in _tb.extract_stack(limit=12)[:-1] if "symx" not in f.filename or "harness" in f.filename]
            print(f"[slow check {dt:.1f}s -> {r}] n_assert={len(self.solver.assertions())} at {fr[-4:]}", flush=True)
        s = str(r)
        if s == "unknown":
            self.stats["unknown"] += 1
        return s

    def _check_fb(self):
        """check with an nlsat fall-back for nonlinear path conditions -> (result, model|None)"""
        r = self.check()
        if r == "sat":
            return r, self.solver.model()
        if r == "unknown" and self.nl_fallback:
            try:
                s2 = z3.Tactic("qfnra-nlsat").solver()
                s2.set("timeout", self.check_timeout_ms)
                s2.add(self.solver.assertions())
                t0 = time.time()
                r2 = str(s2.check())
                self.stats["solver_s"] += time.time() - t0
                self.stats["nl_fallback"] = self.stats.get("nl_fallback", 0) + 1
                if r2 == "sat":
                    return "sat", s2.model()
                if r2 == "unsat":
                    return "unsat", None
            except z3.Z3Exception:
                pass
        return r, None

    def _ensure_model(self):
        if self.model is None:
            r, m = self._check_fb()
            if r == "sat":
                self.model = m
            elif r == "unsat":
                raise Infeasible()
        return self.model

    def _side(self, c):
        # syntactic shortcut: the condition (or its negation) is already a conjunct of the path condition
        cid = c.get_id()
        if cid in self._pc_ids:
            return "sat" if self.model is not None else "unknown", self.model
        self.solver.push()
        self.solver.add(c)
        r, m = self._check_fb()
        self.solver.pop()
        return r, m

    def assume(self, c, axiom=False):
        """Add a constraint to the current path (definition of a fresh symbol, axiom instance,
        harness assumption made mid-path)."""
        if isinstance(c, bool):
            if not c:
                raise Infeasible()
            return
        c = z3.simplify(c)
        if z3.is_true(c):
            return
        self.solver.add(c)
        self.pc.append(c)
        self._pc_ids.add(c.get_id())
        if self.model is not None:
            try:
                if not z3.is_true(self.model.eval(c, model_completion=True)):
                    self.model = None
            except z3.Z3Exception:
                self.model = None

    def decide(self, cond):
        if isinstance(cond, bool):
            return cond
        if self.stop:
            raise Infeasible()
        cond = z3.simplify(cond)
        if z3.is_true(cond):
            return True
        if z3.is_false(cond):
            return False
        i = len(self.trace)
        if i >= self.max_decisions:
            raise Budget(f"more than {self.max_decisions} decisions on one path")
        self.stats["decisions"] += 1
        if i < len(self.prefix):
            v, forced = self.prefix[i]
        else:
            forced = False
            m = None
            try:
                m = self._ensure_model()
            except Infeasible:
                raise
            known = None
            if m is not None:
                try:
                    mv = m.eval(cond, model_completion=True)
                    known = True if z3.is_true(mv) else False if z3.is_false(mv) else None
                except z3.Z3Exception:
                    known = None
            if known is None:
                rt, mt = self._side(cond)
                rf, mf = self._side(z3.Not(cond))
                t_ok, f_ok = rt != "unsat", rf != "unsat"
                if t_ok and f_ok:
                    v = True
                    self.model = mt
                elif t_ok:
                    v, forced, self.model = True, True, mt
                elif f_ok:
                    v, forced, self.model = False, True, mf
                else:
                    raise Infeasible()
            else:
                other = z3.Not(cond) if known else cond
                same = cond if known else z3.Not(cond)
                if z3.simplify(same).get_id() in self._pc_ids or same.get_id() in self._pc_ids:
                    ro, mo = "unsat", None
                else:
                    ro, mo = self._side(other)
                if ro == "unsat":
                    v, forced = known, True
                else:
                    v = True  # explore the True side first
                    if known is False:
                        self.model = mo  # may be None if unknown
                    # else keep current model
            if not forced:
                self.pending.append(self.trace_pairs() + [(not v, False)])
            else:
                self.stats["forced"] += 1
        c = cond if v else z3.Not(cond)
        self.solver.push()
        self.levels += 1
        self.solver.add(c)
        self.trace.append(v)
        self.forced.append(forced)
        self.pc.append(c)
        self._pc_ids.add(c.get_id())
        if i < len(self.prefix):
            self.model = None
        return v

    def trace_pairs(self):
        return list(zip(self.trace, self.forced))

    # ---- fresh symbols
    def _fresh_name(self, tag):
        n = self.fresh_n.get(tag, 0)
        self.fresh_n[tag] = n + 1
        return f"{tag}!{n}"

    def fresh_real(self, tag):
        return z3.Real(self._fresh_name(tag))

    def fresh_int(self, tag):
        return z3.Int(self._fresh_name(tag))

    def fresh_bool(self, tag):
        return z3.Bool(self._fresh_name(tag))

    # ---- main loop
    def explore(self, fn):
        """yields PathResult dicts."""
        stack = [[]]
        results = []
        self.stop = False
        while stack and not self.stop:
            if self.stats["paths"] + self.stats["infeasible_runs"] >= self.max_paths:
                raise Budget(f"more than {self.max_paths} paths")
            prefix = stack.pop()
            self._pop_all()
            # constraints added by assume() at level 0 of the previous run must go: rebuild
            self.solver.reset()
            self.solver.set("timeout", self.check_timeout_ms)
            for a in self.assumptions:
                self.solver.add(a)
            self._reset_run(prefix)
            _set_cur(self)
            status, value, exc = "ok", None, None
            try:
                value = fn()
            except Infeasible:
                status = "infeasible"
            except (Budget, Unsupported):
                _set_cur(None)
                raise
            except Exception as e:  # exception escaping the code under test on a feasible path
                status, exc = "exception", e
            finally:
                _set_cur(None)
            for p in self.pending:
                stack.append(p)
            if status == "infeasible":
                self.stats["infeasible_runs"] += 1
                continue
            self.stats["paths"] += 1
            results.append({
                "status": status, "value": value, "exc": exc, "trace": self.trace_pairs(), "pc": list(self.pc),
                "obligations": list(self.obligations), "rng_log": list(self.rng_log), "cuts": list(self.cuts),
                "covers": set(self.covers),
            })
        self._pop_all()
        return results


_CUR = [None]
import os as _os
_SLOW = bool(_os.environ.get("VERIF_SLOW"))


def _set_cur(ex):
    _CUR[0] = ex


def cur():
    ex = _CUR[0]
    if ex is None:
        raise Unsupported("symbolic decision outside an exploration")
    return ex


def in_exploration():
    return _CUR[0] is not None


def decide(cond):
    cond = raw(cond)
    if isinstance(cond, bool):
        return cond
    if not is_sym(cond):
        return bool(cond)
    return cur().decide(cond)


def concretize_int(e, cap=64):
    """Fork over all feasible values of an Int term (shape-determining values)."""
    e = raw(e)
    if not is_sym(e):
        return int(e)
    e = z3.simplify(e)
    if z3.is_int_value(e):
        return e.as_long()
    ex = cur()
    for _ in range(cap):
        m = ex._ensure_model()
        if m is None:
            raise Unsupported("cannot enumerate values: solver unknown")
        v = z3.simplify(m.eval(e, model_completion=True))
        if not z3.is_int_value(v):
            # e.g. ToInt of an algebraic number: fall back to trying small values in turn
            for k in list(range(0, cap + 1)) + list(range(-1, -cap - 1, -1)):
                if ex.decide(e == k):
                    return k
            raise Unsupported("cannot enumerate values: non-numeral model value")
        k = v.as_long()
        if ex.decide(e == k):
            return k
    ex.cuts.append(f"value enumeration capped at {cap} values")
    raise Infeasible()


def fold(v):
    """Determinacy folding: replace a symbolic raw value by its constant if the path condition entails it."""
    v = raw(v)
    if not is_sym(v):
        return v
    ex = cur()
    m = ex._ensure_model()
    if m is None:
        return v
    c = m.eval(v, model_completion=True)
    r, _ = ex._side(v != c)
    if r == "unsat":
        return wrap(c)
    return v
