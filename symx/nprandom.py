"""symx.np.random — nondeterministic contract stubs.  Every call returns fresh symbols constrained
only by the documented contract and is logged on the path (function, argument terms, result)."""
import z3

from . import core
from .core import Unsupported, box, concretize_int, is_sym, raw, r_cmp, to_z3, decide

CAP = 4            # cap on forked sizes / multiplicities (recorded as an assumption when hit)
MULT_CAP = [None]  # optional cap on array-valued binomial/poisson draws (single-pass multiplicities); recorded as a cut
TAPE = [None]      # concrete replay: list of recorded results to feed back


_VIA_GEN = [False]


def _log(fn, args, result):
    ex = core.cur()
    ex.rng_log.append({"fn": ("Generator." if _VIA_GEN[0] else "") + fn, "args": args, "result": result})


def _gen(f):
    def g(self, *a, **k):
        _VIA_GEN[0] = True
        try:
            return f(self, *a, **k)
        finally:
            _VIA_GEN[0] = False

    return g


def _np():
    from . import np as snp

    return snp


PINNED = [False]      # harness policy rng_pinned: every draw is pinned to one contract-respecting value (recorded as a cut)


def _pin(ex, tag, v, lo, hi, guard=None):
    """obligations about WHICH random calls are made (not about what they return) pin the drawn values: multiplicities
    min(1, n), indices cycling through the population - no forks on drawn values"""
    if not PINNED[0]:
        return
    k = len(ex.inputs_rng)
    if tag == "choice":
        n = hi + 1 if not is_sym(hi) else None
        c = v == (k % n if n else 0)
    elif tag == "binomial":
        return      # pinned in binomial() itself, where p is known (p = 0 and p = 1 force the value)
    else:
        c = z3.If(to_z3(hi) >= 1, v == 1, v == 0) if hi is not None else v == 1
    ex.assume(c if guard is None else z3.Implies(guard, c))
    cut = "RNG draws pinned (multiplicity 1 per element, cyclic indices): the obligation concerns the sequence of RNG calls only"
    if cut not in ex.cuts:
        ex.cuts.append(cut)


def _bounded_int(tag, lo, hi):
    ex = core.cur()
    v = ex.fresh_int(tag)
    ex.assume(z3.And(v >= to_z3(lo), v <= to_z3(hi)))
    _pin(ex, tag, v, lo, hi)
    ex.inputs_rng.append(v)
    return v


def _cap_mult(cells):
    if MULT_CAP[0] is not None:
        ex = core.cur()
        for c in cells:
            if is_sym(c):
                ex.assume(c <= MULT_CAP[0])
        cut = f"array-valued binomial/poisson draws (single-pass multiplicities) <= {MULT_CAP[0]}"
        if cut not in ex.cuts:
            ex.cuts.append(cut)


def _size_tuple(size):
    if size is None:
        return None
    snp = _np()
    return snp._shape(size)


def _real(fn, *a, **k):
    """conformance mode: delegate to NumPy's global RNG and lift the result into the model"""
    import numpy as _rnp

    snp = _np()
    conv = lambda v: (snp.asarray(v) if isinstance(v, _rnp.ndarray) else raw(v))
    r = getattr(_rnp.random, fn)(*[_rnp.asarray(x) if isinstance(x, snp.ndarray) else (float(x) if isinstance(x, (core.Q,)) else x) for x in a],
                                 **{kk: (float(v) if isinstance(v, core.Q) else v) for kk, v in k.items()})
    if isinstance(r, _rnp.ndarray):
        return snp.asarray(r)
    return box(raw(r))


def binomial(n, p, size=None):
    if core.CONCRETE[0]:
        return _real("binomial", n, p, size=size)
    snp = _np()
    n_, p_ = raw(n), raw(p)
    shape = _size_tuple(size)

    def one(nn, pp):
        if not is_sym(nn) and not is_sym(pp):
            if nn < 0 or pp < 0 or pp > 1:
                raise ValueError("binomial: n < 0 or p outside [0, 1]")
        else:
            if decide(r_cmp("lt", nn, 0)):
                raise ValueError("n < 0")
            if decide(snp.r_or(r_cmp("lt", pp, 0), r_cmp("gt", pp, 1))):
                raise ValueError("p < 0, p > 1 or p is NaN")
        v = _bounded_int("binomial", 0, nn)
        ex = core.cur()
        ppz = to_z3(pp, like=z3.RealSort())
        ex.assume(z3.And(z3.Implies(ppz == 0, v == 0), z3.Implies(ppz == 1, v == to_z3(nn))))
        if PINNED[0]:
            _pin(ex, "binomial!", v, 0, nn, guard=z3.And(ppz > 0, ppz < 1))
        return core.wrap(v)

    if shape is None:
        if isinstance(n_, snp.ndarray) or isinstance(p_, snp.ndarray):
            raise Unsupported("binomial with array parameters")
        r = one(n_, p_)
        _log("binomial", {"n": n_, "p": p_, "size": None}, r)
        return box(r)
    cells = [one(n_, p_) for _ in range(snp._prod(shape))]
    _cap_mult(cells)
    _log("binomial", {"n": n_, "p": p_, "size": shape}, cells)
    return snp.ndarray.new(cells, shape, "i")


def poisson(lam=1.0, size=None):
    if core.CONCRETE[0]:
        return _real("poisson", lam, size=size)
    snp = _np()
    lam_ = raw(lam)
    shape = _size_tuple(size)

    def one():
        ex = core.cur()
        v = ex.fresh_int("poisson")
        _pin(ex, "poisson", v, 0, None)
        ex.inputs_rng.append(v)
        ex.assume(v >= 0)
        ex.assume(z3.Implies(to_z3(lam_, like=z3.RealSort()) == 0, v == 0))
        return v

    if shape is None:
        r = one()
        _log("poisson", {"lam": lam_, "size": None}, r)
        return box(r)
    cells = [one() for _ in range(snp._prod(shape))]
    _cap_mult(cells)
    _log("poisson", {"lam": lam_, "size": shape}, cells)
    return snp.ndarray.new(cells, shape, "i")


def choice(a, size=None, replace=True, p=None):
    if core.CONCRETE[0]:
        return _real("choice", a, size=size, replace=replace, p=None if p is None else __import__("numpy").asarray(p))
    snp = _np()
    ex = core.cur()
    if isinstance(a, (int, core.I)) or (isinstance(a, core.SV)):
        pop_n = raw(a)
        if is_sym(pop_n):
            pop_n = concretize_int(pop_n)
        pop = None
    else:
        pop = snp.asarray(a)
        if pop.ndim != 1:
            raise ValueError("a must be 1-dimensional")
        pop_n = pop.size
    shape = _size_tuple(size)
    k = 1 if shape is None else snp._prod(shape)
    if pop_n == 0 and k > 0:
        raise ValueError("a cannot be empty unless no samples are taken")
    if not replace and k > pop_n:
        raise ValueError("Cannot take a larger sample than population when 'replace=False'")
    idx = []
    for _ in range(k):
        v = _bounded_int("choice", 0, pop_n - 1)
        idx.append(v)
    if not replace and k > 1:
        ex.assume(z3.Distinct(*idx))
    idx = [core.wrap(v) for v in idx]
    _log("choice", {"a": pop_n if pop is None else ("array", pop_n), "size": shape, "replace": replace, "p": None if p is None else "given"}, idx)
    if pop is None:
        cells = idx
        kind = "i"
    else:
        cells = [snp._select(pop.data, i) for i in idx]
        kind = pop._dt
    if shape is None:
        return box(cells[0])
    return snp.ndarray.new(cells, shape, kind)


def normal(loc=0.0, scale=1.0, size=None):
    if core.CONCRETE[0]:
        return _real("normal", loc, scale, size=size)
    snp = _np()
    ex = core.cur()
    shape = _size_tuple(size)
    k = 1 if shape is None else snp._prod(shape)
    cells = [ex.fresh_real("normal") for _ in range(k)]
    ex.inputs_rng.extend(cells)
    _log("normal", {"loc": raw(loc), "scale": raw(scale), "size": shape}, cells)
    if shape is None:
        return box(cells[0])
    return snp.ndarray.new(cells, shape, "f")


def shuffle(x):
    """arbitrary permutation in place: result cells are fresh symbols constrained to be a permutation
    (multiset equality through pairwise-distinct position symbols)."""
    snp = _np()
    if core.CONCRETE[0]:
        import numpy as _rnp

        perm = _rnp.random.permutation(len(x))
        old_cells = x.data
        for j, i in enumerate(x.ix):
            x.buf[i] = old_cells[int(perm[j])]
        return
    ex = core.cur()
    a = x
    if not isinstance(a, snp.ndarray) or a.ndim != 1:
        raise Unsupported("shuffle of non-1d array")
    n = a.size
    old = a.data
    pos = [_bounded_int("shuffle", 0, n - 1) for _ in range(n)]
    if n > 1:
        ex.assume(z3.Distinct(*pos))
    _log("shuffle", {"n": n}, pos)
    for j, i in enumerate(a.ix):
        a.buf[i] = snp._select(old, core.wrap(pos[j]), force_ite=True)


def permutation(x):
    snp = _np()
    a = snp.asarray(x).copy() if not isinstance(x, (int, core.I)) else snp.arange(int(x))
    shuffle(a)
    return a


def seed(s=None):
    if core.CONCRETE[0]:
        import numpy as _rnp

        return _rnp.random.seed(s)
    _log("seed", {"seed": raw(s)}, None)


def random(size=None):
    raise Unsupported("np.random.random")


def randint(*a, **k):
    raise Unsupported("np.random.randint")


def uniform(*a, **k):
    raise Unsupported("np.random.uniform")


class Generator:
    """Generator methods share the stubs; a Generator carries no state in the model."""

    @_gen
    def binomial(self, n, p, size=None):
        return binomial(n, p, size)

    @_gen
    def poisson(self, lam=1.0, size=None):
        return poisson(lam, size)

    @_gen
    def normal(self, loc=0.0, scale=1.0, size=None):
        return normal(loc, scale, size)

    @_gen
    def choice(self, a, size=None, replace=True, p=None, **kw):
        return choice(a, size, replace, p)

    @_gen
    def shuffle(self, x, axis=0):
        return shuffle(x)

    @_gen
    def permutation(self, x, axis=0):
        return permutation(x)


def default_rng(seed=None):
    return Generator()
