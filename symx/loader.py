"""Load $VERIF_REPO/score_analysis/**.py under the package name `sa_sym`, rewriting imports to
the symbolic models and `/` to the exact-division helper.  Nothing is cached across runs."""
import ast
import importlib.abc
import importlib.util
import os
import pathlib
import sys

PKG = "sa_sym"
REWRITE = {"numpy": "symx.np", "pandas": "symx.pd", "scipy": "symx.scipy", "scipy.stats": "symx.scipy.stats",
           "math": "symx.math"}


def repo_root():
    return pathlib.Path(os.environ.get("VERIF_REPO", "/repo"))


class _T(ast.NodeTransformer):
    def visit_Import(self, node):
        out = []
        for a in node.names:
            top = a.name.split(".")[0]
            if a.name in REWRITE or top in REWRITE:
                asname = a.asname or top
                # `import scipy.stats` binds `scipy`; `import numpy as np` binds `np`
                target = REWRITE[a.name] if a.asname else REWRITE[top]
                out.append(ast.ImportFrom(module=target.rsplit(".", 1)[0], names=[ast.alias(name=target.rsplit(".", 1)[1], asname=asname)], level=0))
                if not a.asname and a.name != top:
                    out.append(ast.Import(names=[ast.alias(name=REWRITE[a.name], asname=None)]))
            elif top == "score_analysis":
                out.append(ast.Import(names=[ast.alias(name=PKG + a.name[len("score_analysis"):], asname=a.asname)]))
            else:
                out.append(ast.Import(names=[a]))
        return out

    def visit_ImportFrom(self, node):
        if node.level == 0 and node.module:
            if node.module == "numpy.typing":
                return ast.parse("ArrayLike = object").body[0]
            top = node.module.split(".")[0]
            if top == "score_analysis":
                node.module = PKG + node.module[len("score_analysis"):]
            elif node.module in REWRITE:
                node.module = REWRITE[node.module]
            elif top in REWRITE:
                node.module = REWRITE[top] + node.module[len(top):]
        return node

    def visit_Call(self, node):
        self.generic_visit(node)
        f = node.func
        if isinstance(f, ast.Attribute) and f.attr == "join" and isinstance(f.value, ast.Constant) and isinstance(f.value.value, str) and len(node.args) == 1:
            # "<sep>".join(parts): a method of a concrete str cannot see symbolic parts
            return ast.copy_location(
                ast.Call(func=ast.Attribute(value=ast.Name(id="__symx_rt__", ctx=ast.Load()), attr="join", ctx=ast.Load()),
                         args=[f.value, node.args[0]], keywords=[]), node)
        if isinstance(f, ast.Name) and f.id == "float" and len(node.args) == 1 and not node.keywords:
            # float(x): the builtin insists on a real Python float; symbolic scalars convert to a float-sorted symbolic scalar
            return ast.copy_location(
                ast.Call(func=ast.Attribute(value=ast.Name(id="__symx_rt__", ctx=ast.Load()), attr="float_", ctx=ast.Load()),
                         args=[node.args[0]], keywords=[]), node)
        return node

    def visit_BinOp(self, node):
        self.generic_visit(node)
        if isinstance(node.op, ast.Div):
            return ast.copy_location(
                ast.Call(func=ast.Attribute(value=ast.Name(id="__symx_rt__", ctx=ast.Load()), attr="div", ctx=ast.Load()),
                         args=[node.left, node.right], keywords=[]), node)
        return node


class Finder(importlib.abc.MetaPathFinder, importlib.abc.Loader):
    def find_spec(self, name, path, target=None):
        if name != PKG and not name.startswith(PKG + "."):
            return None
        rel = name.split(".")[1:]
        p = repo_root().joinpath("score_analysis", *rel)
        if p.is_dir():
            return importlib.util.spec_from_loader(name, self, is_package=True, origin=str(p / "__init__.py"))
        f = p.with_suffix(".py")
        if f.exists():
            return importlib.util.spec_from_loader(name, self, origin=str(f))
        return None

    def create_module(self, spec):
        return None

    def exec_module(self, mod):
        from . import rt

        origin = mod.__spec__.origin
        src = pathlib.Path(origin).read_text()
        import warnings

        with warnings.catch_warnings():
            warnings.simplefilter("ignore")
            parsed = ast.parse(src)
        tree = ast.fix_missing_locations(_T().visit(parsed))
        if mod.__spec__.submodule_search_locations is not None:
            mod.__path__ = [str(pathlib.Path(origin).parent)]
        mod.__dict__["__symx_rt__"] = rt
        import warnings

        with warnings.catch_warnings():
            warnings.simplefilter("ignore")
            code = compile(tree, origin, "exec")
        exec(code, mod.__dict__)


_installed = []


def install():
    if not _installed:
        f = Finder()
        sys.meta_path.insert(0, f)
        _installed.append(f)


def load(fresh=True):
    """import sa_sym (fresh copy of the current working tree) and return the package."""
    install()
    if fresh:
        for k in [k for k in sys.modules if k == PKG or k.startswith(PKG + ".")]:
            del sys.modules[k]
    import importlib

    pkg = importlib.import_module(PKG)
    importlib.import_module(PKG + ".experimental")
    importlib.import_module(PKG + ".applications")
    return pkg


def encoded_functions(pkg_files=None):
    """qualified names of functions defined in the repo source (for evidence)."""
    out = []
    root = repo_root() / "score_analysis"
    for f in sorted(root.rglob("*.py")):
        try:
            tree = ast.parse(f.read_text())
        except SyntaxError:
            continue
        mod = ".".join(f.relative_to(root.parent).with_suffix("").parts)
        for node in ast.walk(tree):
            if isinstance(node, ast.ClassDef):
                for sub in node.body:
                    if isinstance(sub, (ast.FunctionDef,)):
                        out.append(f"{mod}.{node.name}.{sub.name}")
    return out
