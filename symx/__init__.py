"""SYMX: symbolic execution of score-analysis' real source over a z3-backed NumPy model."""
from .core import Unsupported, Infeasible, Budget, SV, I, Q, F, Explorer  # noqa: F401
