"""symx.pd — the handful of pandas entry points score-analysis calls, by their documented contract."""
from . import core
from .core import Unsupported, box, raw


def _np():
    from . import np as snp

    return snp


class Index:
    def __init__(self, data, name=None):
        snp = _np()
        self.data = list(data.tolist() if isinstance(data, snp.ndarray) else data)
        self.name = name
        self.names = [name]

    def __iter__(self):
        return iter(self.data)

    def __len__(self):
        return len(self.data)

    def __contains__(self, k):
        for d in self.data:
            if isinstance(d, str) or isinstance(k, str):
                if isinstance(d, str) and isinstance(k, str) and d == k:
                    return True
                continue
            if bool(k == d):
                return True
        return False

    def tolist(self):
        return list(self.data)

    def sort_values(self):
        out = type(self)(sorted(self.data))
        out.name, out.names = self.name, list(self.names)
        return out

    def __getitem__(self, i):
        return self.data[i]

    def __eq__(self, other):
        return [bool(a == b) for a, b in zip(self.data, list(other))]

    __hash__ = None

    @property
    def values(self):
        return _np().asarray(self.data)


class MultiIndex(Index):
    @staticmethod
    def from_arrays(arrays, names=None):
        arrays = [list(a) for a in arrays]
        tuples = list(zip(*arrays)) if arrays else []
        mi = MultiIndex(tuples)
        mi.names = list(names) if names is not None else [None] * len(arrays)
        mi.levels_data = arrays
        return mi


class Series:
    def __init__(self, data, index=None, name=None):
        snp = _np()
        self._arr = snp.asarray(data)
        self.index = index
        self.name = name

    @property
    def values(self):
        return self._arr

    def __getitem__(self, k):
        if isinstance(self.index, dict):
            return box(self._arr.data[self.index[k]])
        return self._arr[k]

    def __iter__(self):
        return iter(self._arr)

    def __len__(self):
        return len(self._arr)

    def tolist(self):
        return self._arr.tolist()

    def __symx_array__(self):
        return self._arr


class _Row:
    def __init__(self, frame, i):
        self.frame, self.i = frame, i

    def __getitem__(self, col):
        return box(self.frame._cols[col].data[self.i])


class _Loc:
    def __init__(self, frame):
        self.frame = frame

    def __getitem__(self, key):
        rows, cols = key
        f = self.frame
        ridx = [f._row_pos(r) for r in rows]
        snp = _np()
        data = {c: snp.asarray([f._cols[c].data[i] for i in ridx]) for c in cols}
        return DataFrame(data, index=list(rows), columns=list(cols))


class _Cols:
    """ordered column store that does not hash its keys (column labels may be symbolic reals)"""

    def __init__(self):
        self.keys_, self.vals_ = [], []

    def _find(self, k):
        for i, c in enumerate(self.keys_):
            if c is k:
                return i
        for i, c in enumerate(self.keys_):
            if isinstance(c, str) or isinstance(k, str):
                if isinstance(c, str) and isinstance(k, str) and c == k:
                    return i
                continue
            try:
                if bool(c == k):
                    return i
            except Unsupported:
                continue
        return None

    def __setitem__(self, k, v):
        i = self._find(k)
        if i is None:
            self.keys_.append(k)
            self.vals_.append(v)
        else:
            self.vals_[i] = v

    def __getitem__(self, k):
        i = self._find(k)
        if i is None:
            raise KeyError(k)
        return self.vals_[i]

    def __contains__(self, k):
        return self._find(k) is not None

    def __iter__(self):
        return iter(self.keys_)

    def __len__(self):
        return len(self.keys_)

    def keys(self):
        return list(self.keys_)

    def values(self):
        return list(self.vals_)


class DataFrame:
    """columns of equal-length arrays."""

    def __init__(self, data=None, index=None, columns=None):
        snp = _np()
        self._cols = _Cols()
        if isinstance(data, dict):
            names = list(columns) if columns is not None else list(data.keys())
            for c in names:
                self._cols[c] = snp.asarray(data[c])
            n = len(self._cols.values()[0]) if len(self._cols) else 0
        else:
            rows = data.tolist() if isinstance(data, snp.ndarray) else list(data)
            rows = [r if isinstance(r, (list, tuple)) else [r] for r in rows]
            n = len(rows)
            width = len(rows[0]) if rows else (len(columns) if columns is not None else 0)
            if columns is None:
                names = list(range(width))
            else:
                names = list(columns.tolist() if isinstance(columns, snp.ndarray) else columns)
            if rows and len(names) != width:
                raise ValueError(f"Shape of passed values is ({n}, {width}), indices imply ({len(index) if index is not None else n}, {len(names)})")
            for j, c in enumerate(names):
                self._cols[c] = snp.asarray([r[j] for r in rows])
        self._names = self._cols.keys() if isinstance(data, dict) else names
        if index is None:
            self.index = Index(list(range(n)))
        elif isinstance(index, Index):
            self.index = index
        else:
            self.index = Index(index)
        if len(self.index) != n and len(self._cols):
            raise ValueError(f"Shape of passed values is ({n}, {len(self._names)}), indices imply ({len(self.index)}, {len(self._names)})")

    def _col_key(self, c):
        if c in self._cols:
            return c
        raise KeyError(c)

    def _row_pos(self, r):
        for i, v in enumerate(self.index.data):
            if bool(v == r):
                return i
        raise KeyError(r)

    @property
    def columns(self):
        return Index(self._names)

    @property
    def values(self):
        snp = _np()
        n = len(self.index)
        return snp.asarray([[self._cols[c].data[i] for c in self._names] for i in range(n)]) if n else snp.zeros((0, len(self._names)))

    @property
    def loc(self):
        return _Loc(self)

    @property
    def shape(self):
        return (len(self.index), len(self._names))

    def __len__(self):
        return len(self.index)

    def __getitem__(self, col):
        if isinstance(col, list):
            return DataFrame({c: self._cols[c] for c in col}, index=self.index)
        return Series(self._cols[col], index=self.index, name=col)

    def __contains__(self, c):
        return c in self._cols

    def apply(self, fn, axis=0):
        if axis != 1:
            raise Unsupported("DataFrame.apply axis != 1")
        return Series([fn(_Row(self, i)) for i in range(len(self.index))], index=self.index)

    def to_markdown(self, **kw):
        raise Unsupported("to_markdown")


def concat(*a, **k):
    raise Unsupported("pd.concat")
