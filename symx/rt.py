"""Run-time helpers the loader injects into the rewritten repository modules."""
from fractions import Fraction

from .core import SV, I, Q, F, box, raw, r_div


FP_MODE = [False]


def div(a, b):
    """`a / b`.  Identical to Python's operator except that two *concrete Python numbers* are
    divided exactly (R-ideal regime: no rounding), so that e.g. 1/3 is the rational 1/3."""
    ta, tb = type(a), type(b)
    if ta in (int, float, bool) and tb in (int, float, bool):
        if b == 0:
            raise ZeroDivisionError("division by zero")
        if FP_MODE[0]:
            # F-bits kernels: concrete numbers are IEEE doubles; z3 folds the constant division with RNE exactly
            from . import fp

            return fp.const(float(a)) / fp.const(float(b))
        return box(r_div(raw(a), raw(b)))
    if ta is I and tb in (int, I):
        return box(r_div(int(a), int(b)))
    if ta is int and tb is I:
        return box(r_div(int(a), int(b)))
    return a / b


def join(sep, parts):
    """`sep.join(parts)` that also accepts symbolic strings among the parts."""
    parts = list(parts)
    if all(isinstance(x, str) for x in parts):
        return sep.join(parts)
    from . import strings

    return strings.join(sep, parts)
