"""Run-time helpers the loader injects into the rewritten repository modules."""
from fractions import Fraction

from .core import SV, I, Q, F, box, raw, r_div


FP_MODE = [False]


def div(a, b):
    """`a / b`.  Identical to Python's operator except that two *concrete Python numbers* are
    divided exactly (R-ideal regime: no rounding), so that e.g. 1/3 is the rational 1/3."""
    ta, tb = type(a), type(b)
    if ta in (int, float, bool) and tb in (int, float, bool):
        if b == 0:
            raise ZeroDivisionError("division by zero")
        if FP_MODE[0]:
            # F-bits kernels: concrete numbers are IEEE doubles; z3 folds the constant division with RNE exactly
            from . import fp

            return fp.const(float(a)) / fp.const(float(b))
        return box(r_div(raw(a), raw(b)))
    if ta is I and tb in (int, I):
        return box(r_div(int(a), int(b)))
    if ta is int and tb is I:
        return box(r_div(int(a), int(b)))
    return a / b


def join(sep, parts):
    """`sep.join(parts)` that also accepts symbolic strings among the parts."""
    parts = list(parts)
    if all(isinstance(x, str) for x in parts):
        return sep.join(parts)
    from . import strings

    return strings.join(sep, parts)


def float_(x):
    """`float(x)`: symbolic scalars (and 0-d / 1-element symbolic arrays) become float-sorted symbolic scalars."""
    from .core import r_to_float, is_sym

    if isinstance(x, SV) or type(x).__name__ == "FPV":
        return box(r_to_float(raw(x)))
    if type(x).__name__ == "ndarray" and type(x).__module__.startswith("symx") and x.size == 1:
        c = x.data[0]
        if is_sym(c) or type(c).__name__ == "FPV":
            return box(r_to_float(c))
    return float(x)
