"""Dual-mode harness context and the per-work-item runner.

A harness is a function ``run(h, **params)``.  In *symbolic* mode ``h.sa`` is the repository source
loaded over the models, inputs are z3 constants and ``h.check`` discharges an obligation with the
solver on the current path.  In *concrete* mode ``h.sa`` is the real ``score_analysis`` package under
real NumPy, inputs come from a witness and ``h.check`` evaluates Python booleans — this is how every
counter-model is replayed against the real code before it is reported."""
from __future__ import annotations

import hashlib
import importlib
import json
import math
import os
import sys
import time
import traceback
import warnings
from fractions import Fraction

import z3

from . import core, loader
from .core import SV, Budget, Infeasible, Unsupported, box, is_sym, raw, to_z3, wrap


class AssumptionFailed(Exception):
    pass


def _z(v, real=False):
    """harness value -> z3 expr"""
    r = raw(v)
    if is_sym(r):
        return r
    if core.is_special(r):
        raise Unsupported("special float in an obligation")
    return to_z3(r, like=z3.RealSort() if real else None)


class SymH:
    """symbolic-mode harness context (one per path run)."""

    mode = "sym"

    def __init__(self, runner):
        self.r = runner
        self.ex = runner.ex
        self.sa = runner.sa
        from . import np as snp

        self.np = snp
        from .scipy import stats as sstats

        self.stats = sstats
        self.inputs = {}
        self.float_atoms = []
        self.notes = []

    def sqrt(self, x):
        return box(core.r_sqrt(raw(x)))

    # ---- inputs
    def real(self, name, float_atom=True):
        c = z3.Real(name)
        self.inputs[name] = c
        if float_atom:
            self.float_atoms.append(c)
            self.np.declare_float_atoms(self.float_atoms)
        return SV(c)

    def reals(self, prefix, n, **kw):
        return [self.real(f"{prefix}{i}", **kw) for i in range(n)]

    def int(self, name, lo=None, hi=None):
        c = z3.Int(name)
        self.inputs[name] = c
        if lo is not None:
            self.ex.assume(c >= lo)
        if hi is not None:
            self.ex.assume(c <= hi)
        return SV(c)

    def ints(self, prefix, n, lo=None, hi=None):
        return [self.int(f"{prefix}{i}", lo, hi) for i in range(n)]

    def bool(self, name):
        c = z3.Bool(name)
        self.inputs[name] = c
        return SV(c)

    def str(self, name, maxlen=None, alphabet=None):
        c = z3.String(name)
        self.inputs[name] = c
        if maxlen is not None:
            self.ex.assume(z3.Length(c) <= maxlen)
        if alphabet is not None:
            re = z3.Star(z3.Union(*[z3.Re(ch) for ch in alphabet])) if len(alphabet) > 1 else z3.Star(z3.Re(alphabet[0]))
            self.ex.assume(z3.InRe(c, re))
        return SV(c)

    def fp(self, name):
        """a symbolic IEEE double (F-bits regime); finite and of moderate magnitude"""
        from . import fp as _fp

        v = _fp.fresh(name)
        self.inputs[name] = v.e
        self.ex.assume(z3.And(_fp.is_finite(v), z3.fpLT(z3.fpAbs(v.e), z3.FPVal(1e300, _fp.F64))))
        return v

    def fpconst(self, x):
        from . import fp as _fp

        return _fp.const(x)

    def const(self, v):
        """exact constant (use for every numeric literal handed to the code under test)."""
        if isinstance(v, float):
            return box(core.lift_float(v))
        if isinstance(v, str):
            return box(Fraction(v))
        return box(raw(v))

    def array(self, values):
        return self.np.asarray(list(values))

    # ---- logic
    def assume(self, cond):
        c = raw(cond)
        if isinstance(c, bool):
            if not c:
                raise Infeasible()
            return
        self.ex.assume(c)
        # an assumption may kill the path
        if self.ex.check() == "unsat":
            raise Infeasible()
        self.ex.model = None

    def ite(self, c, a, b):
        return box(core.ite(raw(c), raw(a), raw(b)))

    def And(self, *cs):
        cs = [raw(c) for c in (cs[0] if len(cs) == 1 and isinstance(cs[0], (list, tuple)) else cs)]
        if any(c is False for c in cs):
            return False
        cs = [c for c in cs if c is not True]
        return box(wrap(z3.And(cs))) if cs else True

    def Or(self, *cs):
        cs = [raw(c) for c in (cs[0] if len(cs) == 1 and isinstance(cs[0], (list, tuple)) else cs)]
        if any(c is True for c in cs):
            return True
        cs = [c for c in cs if c is not False]
        return box(wrap(z3.Or(cs))) if cs else False

    def Not(self, c):
        return box(core.r_not(raw(c)))

    def Implies(self, a, b):
        return self.Or(self.Not(a), b)

    def eq(self, a, b, tol=None):
        return box(core.r_cmp("eq", raw(a), raw(b)))

    def le(self, a, b, tol=None):
        return box(core.r_cmp("le", raw(a), raw(b)))

    def lt(self, a, b, tol=None):
        return box(core.r_cmp("lt", raw(a), raw(b)))

    def near(self, a, b):
        """equal, or adjacent floats (one nextafter step apart) — the 'few ulp' slack of the properties.
        Adjacent means: one of them is a term x on which the code/harness called nextafter and the other is
        that step (also under negation, floats being symmetric)."""
        a, b = raw(a), raw(b)
        alts = [core.r_cmp("eq", a, b)]
        memo = self.ex.memo
        for k, t in list(memo.items()):
            if k and k[0] == "nextafter":
                x = memo[("nextafter_arg", k[2])]
                for (u, v) in ((x, t), (t, x), (-x, -t), (-t, -x)):
                    alts.append(core.r_and(core.r_cmp("eq", a, u), core.r_cmp("eq", b, v)))
        return self.Or(alts)

    def sum(self, xs):
        acc = 0
        for x in xs:
            acc = core.r_add(acc, raw(x))
        return box(acc)

    def count(self, conds):
        return self.sum([self.ite(c, 1, 0) for c in conds])

    def min(self, xs):
        xs = [raw(x) for x in xs]
        acc = xs[0]
        for x in xs[1:]:
            acc = core.ite(core.r_cmp("le", acc, x), acc, x)
        return box(acc)

    def max(self, xs):
        xs = [raw(x) for x in xs]
        acc = xs[0]
        for x in xs[1:]:
            acc = core.ite(core.r_cmp("ge", acc, x), acc, x)
        return box(acc)

    def abs(self, x):
        return box(core.r_abs(raw(x)))

    def is_nan(self, x):
        r = raw(x)
        return bool(core.is_special(r) and r != r)

    def is_special(self, x):
        return core.is_special(raw(x))

    def cells(self, arr):
        """list of scalar values of an array-like result"""
        a = self.np.asarray(arr)
        return [box(c) for c in a.data]

    def shape(self, arr):
        return tuple(self.np.asarray(arr).shape)

    def snapshot(self, arr):
        """identity snapshot of an array's cells (for non-mutation obligations)."""
        a = self.np.asarray(arr)
        return (a.shape, list(a.data))

    def unchanged(self, snap, arr):
        a = self.np.asarray(arr)
        shape, cells = snap
        if a.shape != shape:
            return False
        for x, y in zip(cells, a.data):
            if is_sym(x) or is_sym(y):
                if not (is_sym(x) and is_sym(y) and x.eq(y)):
                    return False
            elif not (type(x) is type(y) and (x == y or (x != x and y != y))):
                return False
        return True

    def decide(self, cond):
        """fork the harness itself on a condition (oracle case split)."""
        return core.decide(raw(cond))

    def concretize(self, v, cap=16):
        return core.concretize_int(raw(v), cap=cap)

    def fold(self, v):
        return box(core.fold(raw(v)))

    def note(self, s):
        self.notes.append(s)

    def policy(self, gather=None, sort=None, search=None, nonlinear=None, fold=None, mult_cap=None, fp_kernel=None, rng_pinned=None):
        self.np.set_policy(gather=gather, sort=sort, search=search, fold=fold)
        if rng_pinned is not None:
            self.np.random.PINNED[0] = bool(rng_pinned)
        if fp_kernel is not None:
            from . import rt as _rt

            _rt.FP_MODE[0] = bool(fp_kernel)
        if mult_cap is not None:
            self.np.random.MULT_CAP[0] = mult_cap
        if nonlinear is not None:
            self.ex.defer_nonlinear = nonlinear == "defer"

    def rng(self):
        """a Generator whose every draw is a fresh symbol under the documented contract"""
        return self.np.random.Generator()

    def rng_log(self):
        return list(self.ex.rng_log)

    def track_int64(self, on=True):
        self.ex.track_int64 = on

    def check_int64(self, name, assuming=True):
        """every integer the code computed so far fits int64 (NumPy integers wrap silently) under `assuming`."""
        lim = 2 ** 63
        seen, conds = set(), []
        for e in self.ex.int_results:
            if e.get_id() in seen:
                continue
            seen.add(e.get_id())
            conds.append(z3.And(e >= -lim, e < lim))
        self.check(name, self.Implies(assuming, self.And(conds)) if conds else True)

    def cover(self, tag):
        self.ex.covers.add(tag)

    # ---- obligations
    def check(self, name, cond):
        self.r.obligation(self, name, cond)

    def fail(self, name, why=""):
        self.r.obligation(self, name, False, why)


class ConcH:
    """concrete-mode harness context: real score_analysis + real NumPy."""

    mode = "conc"

    def __init__(self, sa, witness, tol=1e-9):
        import numpy as np

        self.sa = sa
        self.np = np
        import scipy.stats as _st

        self.stats = _st
        self.w = witness
        self.tol = tol
        self.failed = []
        self.checked = []
        self.notes = []

    def _get(self, name, default=0):
        # inputs declared after the failing obligation are not part of the witness: any value will do
        return self.w.get(name, default)

    def real(self, name, float_atom=True):
        return float(Fraction(self._get(name)))

    def reals(self, prefix, n, **kw):
        return [self.real(f"{prefix}{i}") for i in range(n)]

    def int(self, name, lo=None, hi=None):
        v = int(self._get(name, lo if lo is not None else (hi if hi is not None and hi < 0 else 0)))
        if (lo is not None and v < lo) or (hi is not None and v > hi):
            raise AssumptionFailed(name)
        return v

    def ints(self, prefix, n, lo=None, hi=None):
        return [self.int(f"{prefix}{i}", lo, hi) for i in range(n)]

    def bool(self, name):
        return bool(self._get(name, False))

    def str(self, name, maxlen=None, alphabet=None):
        return str(self._get(name, ""))

    def fp(self, name):
        return float(self._get(name, 0.0))

    def fpconst(self, x):
        return float(x)

    def const(self, v):
        if isinstance(v, str):
            return float(Fraction(v))
        return v

    def array(self, values):
        return self.np.asarray(list(values))

    def assume(self, cond):
        if not bool(cond):
            raise AssumptionFailed()

    def ite(self, c, a, b):
        return a if bool(c) else b

    def And(self, *cs):
        cs = cs[0] if len(cs) == 1 and isinstance(cs[0], (list, tuple)) else cs
        return all(bool(c) for c in cs)

    def Or(self, *cs):
        cs = cs[0] if len(cs) == 1 and isinstance(cs[0], (list, tuple)) else cs
        return any(bool(c) for c in cs)

    def Not(self, c):
        return not bool(c)

    def Implies(self, a, b):
        return (not bool(a)) or bool(b)

    def _t(self, a, b, tol):
        tol = self.tol if tol is None else tol
        return tol * max(1.0, abs(float(a)), abs(float(b)))

    def eq(self, a, b, tol=None):
        if isinstance(a, (str, bytes)) or isinstance(b, (str, bytes)) or a is None or b is None:
            return a == b
        fa, fb = float(a), float(b)
        if math.isnan(fa) or math.isnan(fb):
            return math.isnan(fa) and math.isnan(fb)
        if math.isinf(fa) or math.isinf(fb):
            return fa == fb
        if float(fa).is_integer() and float(fb).is_integer() and isinstance(a, (int, self.np.integer)) and isinstance(b, (int, self.np.integer)):
            return int(a) == int(b)
        return abs(fa - fb) <= self._t(fa, fb, tol)

    def le(self, a, b, tol=None):
        return float(a) <= float(b) + self._t(a, b, tol)

    def lt(self, a, b, tol=None):
        return float(a) < float(b) + self._t(a, b, tol)

    def near(self, a, b):
        a, b = float(a), float(b)
        if a == b:
            return True
        return abs(a - b) <= 4 * abs(math.nextafter(a, math.inf) - a) or self.eq(a, b)

    def sum(self, xs):
        return sum(xs)

    def count(self, conds):
        return sum(1 for c in conds if bool(c))

    def min(self, xs):
        return min(xs)

    def max(self, xs):
        return max(xs)

    def abs(self, x):
        return abs(x)

    def sqrt(self, x):
        return math.sqrt(x) if x >= 0 else math.nan

    def is_nan(self, x):
        try:
            return math.isnan(float(x))
        except (TypeError, ValueError):
            return False

    def is_special(self, x):
        try:
            return not math.isfinite(float(x))
        except (TypeError, ValueError):
            return False

    def cells(self, arr):
        return list(self.np.asarray(arr).reshape(-1).tolist())

    def shape(self, arr):
        return tuple(self.np.asarray(arr).shape)

    def snapshot(self, arr):
        return self.np.array(arr, copy=True)

    def unchanged(self, snap, arr):
        a = self.np.asarray(arr)
        return a.shape == snap.shape and bool(self.np.array_equal(a, snap, equal_nan=True))

    def decide(self, cond):
        return bool(cond)

    def concretize(self, v, cap=16):
        return int(v)

    def fold(self, v):
        return v

    def note(self, s):
        self.notes.append(s)

    def policy(self, **kw):
        pass

    def rng(self):
        return self.tape

    def rng_log(self):
        t = getattr(self, "tape", None)
        return list(t.log) if t is not None else []

    def track_int64(self, on=True):
        pass

    def check_int64(self, name, assuming=True):
        self.checked.append(name)

    def cover(self, tag):
        pass

    def check(self, name, cond):
        ok = bool(cond)
        self.checked.append(name)
        if not ok:
            self.failed.append(name)

    def fail(self, name, why=""):
        self.checked.append(name)
        self.failed.append(name)


class Tape:
    """concrete replay of RNG stubs: feeds the witness values back in call order (same fresh-name scheme as
    symx.nprandom: '<fn>!<k>'), defaulting to a contract-respecting value when the witness has none."""

    def __init__(self, witness):
        self.w = witness
        self.n = {}
        self.log = []       # same shape as Explorer.rng_log: {"fn", "args"} (concrete), so call-sequence obligations replay

    def _next(self, tag, default):
        k = self.n.get(tag, 0)
        self.n[tag] = k + 1
        v = self.w.get(f"rng!{tag}!{k}", default)
        return v

    def binomial(self, n, p, size=None):
        import numpy as np

        self.log.append({"fn": "binomial", "args": {"size": size}})

        def one():
            v = int(self._next("binomial", 0))
            return max(0, min(int(n), v))

        if size is None:
            return one()
        return np.array([one() for _ in range(int(np.prod(size)))], dtype=int).reshape(size)

    def poisson(self, lam=1.0, size=None):
        import numpy as np

        self.log.append({"fn": "poisson", "args": {"size": size}})
        one = lambda: max(0, int(self._next("poisson", 0)))
        if size is None:
            return one()
        return np.array([one() for _ in range(int(np.prod(size)))], dtype=int).reshape(size)

    def choice(self, a, size=None, replace=True, p=None, **kw):
        import numpy as np

        pop = None if isinstance(a, (int, np.integer)) else np.asarray(a)
        n = int(a) if pop is None else len(pop)
        k = 1 if size is None else int(np.prod(size))
        self.log.append({"fn": "choice", "args": {"size": size, "replace": replace}})
        if n == 0 and k > 0:
            raise ValueError("a cannot be empty unless no samples are taken")
        if not replace and k > n:
            raise ValueError("Cannot take a larger sample than population when 'replace=False'")
        idx = []
        for _ in range(k):
            v = max(0, min(n - 1, int(self._next("choice", 0))))
            if not replace:
                while v in idx:
                    v = (v + 1) % n
            idx.append(v)
        idx = np.array(idx, dtype=int)
        out = idx if pop is None else pop[idx]
        if size is None:
            return out[0]
        return out.reshape(size)

    def normal(self, loc=0.0, scale=1.0, size=None):
        import numpy as np

        self.log.append({"fn": "normal", "args": {"size": size}})
        one = lambda: float(Fraction(self._next("normal", 0)))
        if size is None:
            return one()
        return np.array([one() for _ in range(int(np.prod(size)))], dtype=float).reshape(size)

    def shuffle(self, x, axis=0):
        n = len(x)
        self.log.append({"fn": "shuffle", "args": {"n": n}})
        pos = []
        for j in range(n):
            v = max(0, min(n - 1, int(self._next("shuffle", j))))
            while v in pos:
                v = (v + 1) % n
            pos.append(v)
        old = x.copy()
        for j in range(n):
            x[j] = old[pos[j]]

    def patch(self):
        """context manager patching numpy.random's legacy functions"""
        import contextlib

        import numpy as np

        tape = self

        @contextlib.contextmanager
        def cm():
            names = ("binomial", "poisson", "choice", "normal", "shuffle")
            saved = {k: getattr(np.random, k) for k in names}
            try:
                for k in names:
                    setattr(np.random, k, getattr(tape, k))
                yield
            finally:
                for k, v in saved.items():
                    setattr(np.random, k, v)

        return cm()


# ----------------------------------------------------------------------------------------------------
_REAL_SA = {}


def real_sa():
    """the real score_analysis package imported from $VERIF_REPO (never the site-packages copy)."""
    root = str(loader.repo_root())
    if root in _REAL_SA:
        return _REAL_SA[root]
    for k in [k for k in sys.modules if k == "score_analysis" or k.startswith("score_analysis.")]:
        del sys.modules[k]
    sys.path.insert(0, root)
    try:
        with warnings.catch_warnings():
            warnings.simplefilter("ignore")
            pkg = importlib.import_module("score_analysis")
            importlib.import_module("score_analysis.experimental")
            importlib.import_module("score_analysis.applications")
    finally:
        sys.path.remove(root)
    assert os.path.realpath(pkg.__file__).startswith(os.path.realpath(root)), pkg.__file__
    _REAL_SA[root] = pkg
    return pkg


def replay(run, params, witness, tol=1e-9, patch_rng=True):
    """Run the harness concretely against the real code. -> dict(status, failed, exc)"""
    h = ConcH(real_sa(), witness, tol)
    h.tape = Tape(witness)
    try:
        with warnings.catch_warnings():
            warnings.simplefilter("ignore")
            import numpy as np

            import contextlib

            with np.errstate(all="ignore"), (h.tape.patch() if patch_rng else contextlib.nullcontext()):
                run(h, **params)
    except AssumptionFailed as e:
        return {"status": "outside-assumptions", "failed": [], "exc": str(e)}
    except Exception as e:  # noqa: BLE001
        return {"status": "exception", "failed": h.failed, "exc": f"{type(e).__name__}: {e}", "exc_type": type(e).__name__,
                "tb": traceback.format_exc(limit=6)}
    return {"status": "ok", "failed": h.failed, "checked": h.checked}


def _val(m, c):
    if z3.is_fp(c):
        from . import fp as _fp

        return repr(_fp.value(m, _fp.FPV(c)))
    v = m.eval(c, model_completion=True)
    if z3.is_int_value(v):
        return v.as_long()
    if z3.is_rational_value(v):
        return str(Fraction(v.numerator_as_long(), v.denominator_as_long()))
    if z3.is_true(v):
        return True
    if z3.is_false(v):
        return False
    if z3.is_string_value(v):
        return v.as_string()
    if z3.is_algebraic_value(v):
        a = v.approx(20)
        return str(Fraction(a.numerator_as_long(), a.denominator_as_long()))
    return str(v)


class Runner:
    """explores one work item; collects evidence; replays counter-models."""

    def __init__(self, prop, run, params, *, query_timeout_ms=20000, check_timeout_ms=10000, max_paths=20000,
                 max_models=6, tol=1e-9, max_decisions=400, first_try_ms=4000):
        self.prop = prop
        self.run = run
        self.params = params
        self.query_timeout_ms = query_timeout_ms
        self.check_timeout_ms = check_timeout_ms
        self.max_paths = max_paths
        self.max_models = max_models
        self.max_decisions = max_decisions
        self.first_try_ms = first_try_ms
        self.tol = tol
        self.sa = None
        self.ex = None
        self.res = {
            "params": params, "paths": 0, "decisions": 0, "queries": 0, "obligations": 0, "discharged": 0,
            "trivial": 0, "nontrivial_keys": 0, "solver_s": 0.0, "violations": [], "inconclusive": [], "samples": [],
            "covers": [], "rng_calls": 0, "cuts": [], "exceptions": 0, "wall_s": 0.0,
        }
        self._keys = set()
        self._stop = False
        self._traced = False
        self._functions = set()
        self.known = []
        self.match_known = None
        self.witness_variants = None
        self._last_witness = None

    # ---- obligations (called from SymH.check on the current path)
    def obligation(self, h, name, cond, why=""):
        ex = self.ex
        res = self.res
        res["obligations"] += 1
        c = raw(cond)
        if res["violations"] or (self.params.get("probe") and res.get("known_hits")):
            # one reproduced violation per work item is enough; do not spend time on the rest
            res["skipped_after_violation"] = res.get("skipped_after_violation", 0) + 1
            res["discharged"] += 0
            return
        if c is True:
            res["discharged"] += 1
            res["trivial"] += 1
            return
        key = (name, tuple(ex.trace))
        neg = z3.BoolVal(True) if c is False else z3.Not(c)
        self._keys.add(key)
        t0 = time.time()
        ex.solver.push()
        ex.solver.set("timeout", min(self.query_timeout_ms, self.first_try_ms))
        if ex.defs:
            ex.solver.add(ex.defs)
        ex.solver.add(neg)
        r = ex.check()
        first_model = None
        if r == "unknown":
            r = self._retry_unknown(ex)
            if r == "unknown":
                # a fresh, non-incremental solver on the same assertions (often much faster for FP / mixed queries)
                try:
                    s3 = z3.Solver()
                    s3.set("timeout", self.query_timeout_ms)
                    s3.add(ex.solver.assertions())
                    t1 = time.time()
                    r3 = str(s3.check())
                    ex.stats["solver_s"] += time.time() - t1
                    if r3 == "unsat":
                        r = "unsat"
                    elif r3 == "sat":
                        r, first_model = "sat", s3.model()
                except z3.Z3Exception:
                    pass
        dt = time.time() - t0
        res["queries"] += 1
        verdict = r
        if r == "unsat":
            res["discharged"] += 1
        elif r == "unknown":
            res["inconclusive"].append({"obligation": name, "reason": "solver-unknown", "path": _trace_str(ex.trace)})
        else:
            verdict = self._counterexample(h, name, ex, first_model)
            if verdict == "unsat":
                res["discharged"] += 1
        ex.solver.pop()
        ex.solver.set("timeout", self.check_timeout_ms)
        if len(res["samples"]) < 3 or (verdict not in ("unsat",) and len(res["samples"]) < 8):
            res["samples"].append({"obligation": name, "path": _trace_str(ex.trace), "pc_size": len(ex.pc),
                                   "formula": _short(c), "verdict": verdict, "solver_ms": round(dt * 1000, 1)})

    def _retry_unknown(self, ex):
        """second opinion for nonlinear queries: nlsat tactic on the same assertions (unsat is sound; sat is not used)."""
        for tac in ("qfnra-nlsat", "default"):
            try:
                s2 = z3.Tactic(tac).solver() if tac != "default" else z3.SolverFor("QF_NRA")
                s2.set("timeout", self.query_timeout_ms)
                s2.add(ex.solver.assertions())
                t0 = time.time()
                r2 = str(s2.check())
                ex.stats["solver_s"] += time.time() - t0
                self.res["retries"] = self.res.get("retries", 0) + 1
                if r2 == "unsat":
                    return "unsat"
            except z3.Z3Exception:
                continue
        # last resort: the same incremental solver with the full per-query budget (strings, mixed theories)
        ex.solver.set("timeout", self.query_timeout_ms)
        r3 = ex.check()
        if r3 == "unsat":
            return "unsat"
        return "unknown"

    def _witness_from(self, h, m):
        w = {n: _val(m, c) for n, c in h.inputs.items()}
        for j, c in enumerate(getattr(self.ex, "inputs_rng", [])):
            w[f"rng!{c}"] = _val(m, c)
        return w

    def _counterexample(self, h, name, ex, first_model=None):
        """solver state: PC and negated obligation asserted; model available."""
        tried = 0
        last = None
        # first try an exactly representable (dyadic) witness, then raw models
        attempts = [first_model] if first_model is not None else []
        reals = [c for c in h.inputs.values() if c.sort() == z3.RealSort()]
        if reals:
            ex.solver.push()
            for i, c in enumerate(reals):
                k = z3.Int(f"dy!{i}")
                ex.solver.add(c * 64 == z3.ToReal(k), k >= -64 * 64, k <= 64 * 64)
            if ex.check() == "sat":
                attempts.append(ex.solver.model())
            ex.solver.pop()
        while tried < self.max_models:
            if attempts:
                m = attempts.pop(0)
            else:
                if ex.check() != "sat":
                    break
                m = ex.solver.model()
            tried += 1
            w = self._witness_from(h, m)
            self._last_witness = w
            rp = replay(self.run, self.params, w, self.tol)
            last = rp
            if rp["status"] == "ok" and rp["failed"]:
                self._violation(name, w, rp, kind="obligation")
                return "sat-reproduced"
            if rp["status"] == "exception":
                self._violation(name, w, rp, kind="exception-in-replay")
                return "sat-reproduced"
            # block this model on the declared inputs and try another
            blk = [(z3.Not(z3.fpEQ(c, m.eval(c, model_completion=True))) if z3.is_fp(c) else c != m.eval(c, model_completion=True)) for c in h.inputs.values()]
            if not blk:
                break
            ex.solver.add(z3.Or(blk))
        # Counter-models over the uninterpreted normal distribution need not be realistic: ask again with the tabulated
        # true values of Phi / Phi^-1 as bracketing facts (sound extra constraints) and replay those models
        try:
            from .scipy import stats as _st

            extra = _st.bracket_constraints(ex)
        except Exception:  # noqa: BLE001
            extra = []
        if extra:
            ex.solver.push()
            ex.solver.add(extra)
            for _ in range(10):
                if ex.check() != "sat":
                    break
                m = ex.solver.model()
                w = self._witness_from(h, m)
                self._last_witness = w
                rp = replay(self.run, self.params, w, self.tol)
                last = rp
                if (rp["status"] == "ok" and rp["failed"]) or rp["status"] == "exception":
                    ex.solver.pop()
                    self._violation(name, w, rp, kind="obligation" if rp["status"] == "ok" else "exception-in-replay")
                    return "sat-reproduced"
                blk = [(z3.Not(z3.fpEQ(c, m.eval(c, model_completion=True))) if z3.is_fp(c) else c != m.eval(c, model_completion=True)) for c in h.inputs.values()]
                if not blk:
                    break
                ex.solver.add(z3.Or(blk))
            ex.solver.pop()
        # witness repair: the check module may propose concrete variants of the last model-level witness (e.g. smaller
        # alpha); any variant that fails on the real code is a genuine, reproduced violation
        variants = getattr(self, "witness_variants", None)
        if variants is not None and last is not None and getattr(self, "_last_witness", None) is not None:
            for w2 in variants(self._last_witness, self.params):
                rp = replay(self.run, self.params, w2, self.tol)
                if rp["status"] == "ok" and rp["failed"]:      # only failed obligations count here, not exceptions
                    self._violation(name, w2, rp, kind="obligation")
                    return "sat-reproduced"
        # No model reproduced.  z3's nonlinear 'sat' answers are not always backed by an exact model: ask the complete
        # procedures once more on the same assertions; 'unsat' there settles the obligation.
        if self._retry_unknown(ex) == "unsat":
            self.res["bogus_sat"] = self.res.get("bogus_sat", 0) + 1
            return "unsat"
        self.res["inconclusive"].append({"obligation": name, "reason": "model-only-counterexample", "last_replay": last,
                                         "path": _trace_str(ex.trace)})
        return "sat-model-only"

    def _violation(self, name, witness, rp, kind):
        v = {"obligation": name, "witness": witness, "params": self.params, "replay": rp, "kind": kind}
        kid = self.match_known(v, self.known) if (self.match_known and self.known) else None
        if kid is not None:
            # a listed (open) known finding: recorded, not reported as a new violation, exploration continues
            v["known_id"] = kid
            self.res.setdefault("known_hits", []).append(v)
            if self.params.get("probe"):
                self.ex.stop = True      # probe items only confirm that a listed finding is still there
            return
        self.res["violations"].append(v)
        self.ex.stop = True   # one reproduced violation per work item is enough

    # ---- main
    def go(self):
        t0 = time.time()
        self.sa = loader.load(fresh=False)
        self.ex = core.Explorer(check_timeout_ms=self.check_timeout_ms, max_paths=self.max_paths,
                                max_decisions=self.max_decisions)
        runner = self

        def body():
            from . import np as snp

            snp.set_policy(gather="ite", sort="ite", search="auto", fold=False)
            snp.random.MULT_CAP[0] = None
            snp.random.PINNED[0] = False
            from . import rt as _rt

            _rt.FP_MODE[0] = False
            runner.ex.defer_nonlinear = False
            snp.declare_float_atoms([])
            h = SymH(runner)
            runner._h = h
            with warnings.catch_warnings():
                warnings.simplefilter("ignore")
                if runner._traced:
                    return runner.run(h, **runner.params)
                runner._traced = True
                root = os.path.realpath(str(loader.repo_root()))
                seen = runner._functions

                def prof(frame, event, arg):
                    if event == "call":
                        co = frame.f_code
                        fn = co.co_filename
                        if fn.startswith(root) and "score_analysis" in fn:
                            seen.add(os.path.relpath(fn, root)[:-3].replace("/", ".") + ":" + getattr(co, "co_qualname", co.co_name))

                sys.setprofile(prof)
                try:
                    return runner.run(h, **runner.params)
                finally:
                    sys.setprofile(None)

        try:
            results = self.ex.explore(body_wrapper(self, body))
        except Unsupported as e:
            self.res["inconclusive"].append({"reason": f"unsupported:{e}", "tb": traceback.format_exc(limit=8)})
            results = []
        except Budget as e:
            self.res["inconclusive"].append({"reason": f"budget:{e}"})
            results = []
        st = self.ex.stats
        self.res["paths"] = st["paths"]
        self.res["decisions"] = st["decisions"]
        self.res["solver_s"] = round(st["solver_s"], 3)
        self.res["checks"] = st["checks"]
        self.res["nontrivial_keys"] = len(self._keys)
        covers = set()
        for r in results:
            covers |= r["covers"]
            self.res["rng_calls"] += len(r["rng_log"])
            for c in r["cuts"]:
                if c not in self.res["cuts"]:
                    self.res["cuts"].append(c)
        self.res["covers"] = sorted(covers)
        self.res["functions"] = sorted(self._functions)
        self.res["wall_s"] = round(time.time() - t0, 3)
        return self.res


def body_wrapper(runner, body):
    """wraps the harness body: exceptions escaping on a feasible path become violation candidates."""

    def f():
        try:
            return body()
        except (Infeasible, Budget, Unsupported):
            raise
        except AssumptionFailed:
            raise Infeasible()
        except Exception as e:  # noqa: BLE001
            runner.res["exceptions"] += 1
            ex = runner.ex
            h = runner._h
            name = f"no-unexpected-exception[{type(e).__name__}]"
            runner.res["obligations"] += 1
            runner._keys.add((name, tuple(ex.trace)))
            tb = traceback.format_exc(limit=12)
            if ex.defs:
                ex.solver.add(ex.defs)
            r = ex.check()
            if r == "unsat":
                raise Infeasible()
            if r == "sat":
                m = ex.solver.model()
                w = runner._witness_from(h, m)
                rp = replay(runner.run, runner.params, w, runner.tol)
                if rp["status"] == "exception" and rp.get("exc_type") == type(e).__name__:
                    runner._violation(name, w, rp, kind="exception")
                    return None
                if rp["status"] == "ok" and rp["failed"]:
                    runner._violation(name, w, rp, kind="obligation")
                    return None
                runner.res["inconclusive"].append({"obligation": name, "reason": "model-exception-not-reproduced",
                                                   "exc": f"{type(e).__name__}: {e}", "tb": tb, "replay": rp})
            else:
                runner.res["inconclusive"].append({"obligation": name, "reason": "exception-on-unknown-path", "exc": repr(e), "tb": tb})
            return None

    return f


def _trace_str(trace):
    return "".join("T" if t else "F" for t in trace)


_PP = []


def _short(c, n=400):
    if not _PP:
        z3.set_option(max_args=6, max_lines=8, max_depth=6, max_visited=120)
        _PP.append(1)
    s = str(c).replace("\n", " ")
    s = " ".join(s.split())
    return s if len(s) <= n else s[:n] + "…"


def run_item(prop, module_name, params, opts):
    """entry point for worker processes"""
    mod = importlib.import_module(module_name)
    r = Runner(prop, mod.run, params, **opts)
    r.match_known = getattr(mod, "match_known", None)
    r.witness_variants = getattr(mod, "witness_variants", None)
    try:
        import pathlib

        kf = json.loads((pathlib.Path(__file__).resolve().parent.parent / "known_findings.json").read_text())
        r.known = [k for k in kf.get("findings", []) if k.get("property") == prop and k.get("status") == "open"]
    except Exception:  # noqa: BLE001
        r.known = []
    return r.go()
