"""String protocol for symbolic strings (z3 Seq): join / split as used by showbias."""
import z3

from . import core
from .core import SV, Unsupported, box, raw, is_sym, to_z3, concretize_int, decide


def join(sep, parts):
    parts = [raw(p) for p in parts]
    sep = raw(sep)
    if not any(is_sym(p) for p in parts) and not is_sym(sep):
        return sep.join(parts)
    out = None
    for p in parts:
        pz = to_z3(p)
        if pz.sort() != z3.StringSort():
            raise TypeError("sequence item: expected str instance")
        out = pz if out is None else z3.Concat(out, to_z3(sep), pz)
    return box(out if out is not None else "")


def split(s, sep=None, maxsplit=-1):
    """str.split(sep) for a concrete non-empty separator: fork on the number of pieces, then constrain."""
    s = raw(s)
    if sep is None or is_sym(raw(sep)) or maxsplit != -1:
        raise Unsupported("split with symbolic/None separator")
    sep = raw(sep)
    if not is_sym(s):
        return s.split(sep)
    ex = core.cur()
    sz, sepz = s, z3.StringVal(sep)
    pieces = []
    rest = sz
    for _ in range(8):
        if decide(z3.Contains(rest, sepz)):
            i = z3.IndexOf(rest, sepz, 0)
            pieces.append(core.wrap(z3.SubString(rest, 0, i)))
            rest = z3.SubString(rest, i + len(sep), z3.Length(rest) - i - len(sep))
        else:
            pieces.append(core.wrap(rest))
            return [box(p) for p in pieces]
    raise Unsupported("split into more than 8 pieces")


def chars(s):
    s = raw(s)
    if not is_sym(s):
        return list(s)
    n = concretize_int(z3.Length(s), cap=8)
    return [box(core.wrap(z3.SubString(s, i, 1))) for i in range(n)]
