"""symx.math — the `math` module as seen by the rewritten repository code."""
import math as _m
from math import *  # noqa: F401,F403
from fractions import Fraction

from . import core
from .core import SV, box, raw, is_sym, r_pow, Unsupported

inf = _m.inf
nan = _m.nan


def pow(a, e):  # noqa: A001
    a, e = raw(a), raw(e)
    if not is_sym(a) and not is_sym(e):
        try:
            if isinstance(e, Fraction) and e.denominator == 1:
                e = int(e)
            if isinstance(e, int) and not core.is_special(a):
                return box(Fraction(a) ** e) if (a != 0 or e >= 0) else _m.pow(float(a), e)
        except (TypeError, ZeroDivisionError):
            pass
        return box(core.irrational_const("pow", _m.pow(float(a), float(e)), (str(a), str(e))))
    return box(upow(a, e))


import z3 as _z3

_POW = _z3.Function("pow", _z3.RealSort(), _z3.RealSort(), _z3.RealSort())


def upow(a, e):
    """uninterpreted pow with the facts the repository relies on: for 0<a<1 and 0<e<=1: a <= pow(a,e) < 1,
    pow(a,1)=a; monotone in a."""
    ex = core.cur()
    az = core.to_z3(a, like=_z3.RealSort())
    ez = core.to_z3(e, like=_z3.RealSort())
    key = ("upow", az.get_id(), ez.get_id())
    if key not in ex.memo:
        t = ex.fresh_real('pow')
        ex.memo[key] = t
        ex.assume(_z3.Implies(_z3.And(az > 0, az < 1, ez > 0, ez <= 1), _z3.And(t >= az, t < 1)), axiom=True)
        ex.assume(_z3.Implies(_z3.And(az > 0, ez > 0), t > 0), axiom=True)
        ex.assume(_z3.Implies(ez == 1, t == az), axiom=True)
        ex.assume(_z3.Implies(az == 1, t == 1), axiom=True)
        for (k, v) in list(ex.memo.items()):
            if k and k[0] == "upow_args" and k[2] == ez.get_id() and k[1] != az.get_id():
                oa = v
                ot = ex.memo[("upow", oa.get_id(), ez.get_id())]
                ex.assume(_z3.Implies(_z3.And(oa > 0, az > 0, ez > 0), _z3.And(_z3.Implies(oa < az, ot < t), _z3.Implies(oa > az, ot > t), _z3.Implies(oa == az, ot == t))), axiom=True)
        ex.memo[("upow_args", az.get_id(), ez.get_id())] = az
    return ex.memo[key]


def sqrt(x):
    return box(core.r_sqrt(raw(x)))


def floor(x):
    x = raw(x)
    if is_sym(x):
        return box(core.r_trunc_int(core.r_floor(x)))
    return _m.floor(x)


def ceil(x):
    x = raw(x)
    if is_sym(x):
        return box(core.r_trunc_int(core.r_ceil(x)))
    return _m.ceil(x)


def isnan(x):
    x = raw(x)
    return bool(core.is_special(x) and x != x)


def isfinite(x):
    return not core.is_special(raw(x))


def isinf(x):
    x = raw(x)
    return bool(core.is_special(x) and x == x)
