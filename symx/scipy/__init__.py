"""symx.scipy — only scipy.stats, axiomatised."""
from . import stats  # noqa: F401
