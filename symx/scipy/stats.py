"""Normal distribution through two uninterpreted functions PHI / PHIINV with the axioms the
repository's algebra relies on, instantiated on the terms occurring on the path."""
import math as _m
from fractions import Fraction

import z3

from .. import core, np as snp
from ..core import Unsupported, box, decide, is_special, is_sym, raw, r_add, r_cmp, r_div, r_mul, r_neg, r_sub, to_z3

PHI = z3.Function("Phi", z3.RealSort(), z3.RealSort())
PHIINV = z3.Function("PhiInv", z3.RealSort(), z3.RealSort())
REAL_PHI = [None]
NUMERIC_BRACKETS = [False]   # bracket Phi / Phi^-1 at symbolic arguments between tabulated true values (makes counter-models replayable)   # harness may set concrete-mode delegates (scipy) for conformance runs


def _real_norm():
    import scipy.stats as st

    return st.norm


_GRID = {}


def _grid():
    """numeric facts about the normal distribution used as monotone bracketing axioms (sound: true values +-1e-9)"""
    if not _GRID:
        from fractions import Fraction as _F

        nrm = _real_norm()
        ps = sorted({m * 10.0 ** -k for k in range(1, 17) for m in (1, 1.5, 2, 3, 5, 7)} | {1 - m * 10.0 ** -k for k in range(2, 16) for m in (1, 1.5, 2, 3, 5, 7)}
                    | {0.15, 0.25, 0.35, 0.4, 0.45, 0.5, 0.55, 0.6, 0.65, 0.75, 0.85})
        ps = [p for p in ps if 0 < p < 1]
        _GRID["ppf"] = [(_F(p), _F(float(nrm.ppf(p)))) for p in ps]
        zs = [x / 8 for x in range(-68, 69)]
        _GRID["cdf"] = [(_F(z), _F(float(nrm.cdf(z)))) for z in zs]
    return _GRID


def _bracket_cs(arg, val, table):
    from fractions import Fraction as _F

    eps = _F(1, 10 ** 9)
    cs = []
    for x, y in table:
        cs.append(z3.Implies(arg <= to_z3(x), val <= to_z3(y + eps * (1 + abs(y)))))
        cs.append(z3.Implies(arg >= to_z3(x), val >= to_z3(y - eps * (1 + abs(y)))))
    return cs


def _bracket(ex, arg, val, table):
    ex.assume(z3.And(_bracket_cs(arg, val, table)), axiom=True)


def bracket_constraints(ex):
    """true numeric facts about Phi / Phi^-1 for every term registered on this path (used to make counter-models
    realistic before they are replayed; not used for proving, where they only slow the solver down)"""
    out = []
    for kind, arg, val in ex.memo.get(("norm_terms",), []):
        if not z3.is_rational_value(z3.simplify(arg)):
            out += _bracket_cs(arg, val, _grid()["cdf" if kind == "phi" else "ppf"])
    return out


def _register(kind, arg, val):
    """add axiom instances for a new term val = kind(arg)."""
    ex = core.cur()
    R = z3.RealVal
    if NUMERIC_BRACKETS[0] and not z3.is_rational_value(z3.simplify(arg)):
        _bracket(ex, arg, val, _grid()["cdf" if kind == "phi" else "ppf"])
    if kind == "phi":
        ex.assume(z3.And(val > 0, val < 1), axiom=True)
        ex.assume(z3.And(z3.Implies(arg == 0, val == R("1/2")), z3.Implies(arg > 0, val > R("1/2")), z3.Implies(arg < 0, val < R("1/2"))), axiom=True)
    else:
        ex.assume(z3.And(z3.Implies(arg == R("1/2"), val == 0), z3.Implies(arg > R("1/2"), val > 0), z3.Implies(arg < R("1/2"), val < 0)), axiom=True)
    terms = ex.memo.setdefault(("norm_terms",), [])
    for (k2, a2, v2) in terms:
        if k2 == kind:
            # strict monotonicity (and functionality)
            ex.assume(z3.And(z3.Implies(a2 < arg, v2 < val), z3.Implies(a2 > arg, v2 > val), z3.Implies(a2 == arg, v2 == val)), axiom=True)
            if kind == "phi":   # symmetry Phi(-z) = 1 - Phi(z)
                ex.assume(z3.Implies(a2 == -arg, v2 == 1 - val), axiom=True)
            else:               # PhiInv(1-p) = -PhiInv(p)
                ex.assume(z3.Implies(a2 == 1 - arg, v2 == -val), axiom=True)
        else:
            # inverse pair: phi(arg)=val, phiinv(a2)=v2 :  a2 == val <=> v2 == arg ; order transfer
            if kind == "phi":
                z, p, q, w = arg, val, a2, v2     # p = Phi(z), w = PhiInv(q)
            else:
                z, p, q, w = a2, v2, arg, val
            ex.assume(z3.And(z3.Implies(q == p, w == z), z3.Implies(w == z, q == p), z3.Implies(q < p, w < z), z3.Implies(q > p, w > z)), axiom=True)
            # symmetry across the pair: Phi(-PhiInv(q)) = 1 - q
            ex.assume(z3.And(z3.Implies(z == -w, p == 1 - q), z3.Implies(p == 1 - q, z == -w)), axiom=True)
    terms.append((kind, arg, val))


def _phi(z):
    """raw z (finite symbolic/concrete real or +-inf) -> raw"""
    if is_special(z):
        if z != z:
            return _m.nan
        return Fraction(1) if z > 0 else Fraction(0)
    if not core.in_exploration():
        return core.lift_float(float(_real_norm().cdf(float(z))))
    ex = core.cur()
    zz = to_z3(z, like=z3.RealSort())
    key = ("phi", zz.get_id())
    if key not in ex.memo:
        t = ex.fresh_real('Phi')   # Ackermannised: fresh constant per argument term + pairwise axioms
        ex.memo[key] = t
        _register("phi", zz, t)
        if not is_sym(z):          # concrete argument: numeric enclosure of the true value (sound extra fact)
            _enclose(ex, t, float(_real_norm().cdf(float(z))))
    return ex.memo[key]


def _enclose(ex, t, f):
    from fractions import Fraction as _F

    fr = _F(f)
    eps = abs(fr) * _F(1, 10 ** 9) + _F(1, 10 ** 12)
    ex.assume(z3.And(t >= to_z3(fr - eps), t <= to_z3(fr + eps)), axiom=True)


def _phiinv(p):
    if is_special(p):
        return _m.nan
    if not core.in_exploration():
        return core.lift_float(float(_real_norm().ppf(float(p))))
    if is_sym(p):
        if decide(r_cmp("le", p, 0)):
            return -_m.inf if decide(r_cmp("eq", p, 0)) else _m.nan
        if decide(r_cmp("ge", p, 1)):
            return _m.inf if decide(r_cmp("eq", p, 1)) else _m.nan
    else:
        if p < 0 or p > 1:
            return _m.nan
        if p == 0:
            return -_m.inf
        if p == 1:
            return _m.inf
        if Fraction(p) == Fraction(1, 2):
            return Fraction(0)
    ex = core.cur()
    pz = to_z3(p, like=z3.RealSort())
    key = ("phiinv", pz.get_id())
    if key not in ex.memo:
        t = ex.fresh_real('PhiInv')
        ex.memo[key] = t
        _register("phiinv", pz, t)
        if not is_sym(p):
            _enclose(ex, t, float(_real_norm().ppf(float(p))))
    return ex.memo[key]


def _vec(fn):
    def g(x, loc=0, scale=1):
        x_, l_, s_ = snp.broadcast_arrays(x, loc, scale)
        return snp._ret([fn(a, b, c) for a, b, c in zip(x_.data, l_.data, s_.data)], x_.shape, "f")

    return g


def _std(t, loc, scale):
    if is_special(t):
        return t
    return r_div(r_sub(t, loc), scale)


class _Norm:
    cdf = staticmethod(_vec(lambda t, l, s: _phi(_std(t, l, s))))
    sf = staticmethod(_vec(lambda t, l, s: _phi(r_neg(_std(t, l, s)) if not is_special(_std(t, l, s)) else -_std(t, l, s))))
    ppf = staticmethod(_vec(lambda p, l, s: _loc_scale(_phiinv(p), l, s)))
    isf = staticmethod(_vec(lambda p, l, s: _loc_scale(_neg(_phiinv(p)), l, s)))


def _neg(v):
    return -v if is_special(v) else r_neg(v)


def _loc_scale(z, l, s):
    if is_special(z):
        return z
    return r_add(l, r_mul(s, z))


norm = _Norm()

_KS = z3.Function("ksone_ppf", z3.RealSort(), z3.IntSort(), z3.RealSort())


class _Ksone:
    @staticmethod
    def ppf(q, n):
        q, n = raw(q), raw(n)
        if not core.in_exploration() or (not is_sym(q) and not is_sym(n)):
            import scipy.stats as st

            return box(core.irrational_const("ksone", float(st.ksone.ppf(float(q), int(n))), (str(q), str(n))) if core.in_exploration()
                       else core.lift_float(float(st.ksone.ppf(float(q), int(n)))))
        ex = core.cur()
        t = ex.fresh_real('ksone')
        ex.assume(z3.And(t > 0, t <= 1), axiom=True)
        return box(t)


ksone = _Ksone()
